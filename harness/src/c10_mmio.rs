//! C10: the real `MmioTransport` (legacy and modern, directly and through `SomeTransport`) is run
//! against a scripted register-level device on the custom safe-mmio bus; the complete ordered
//! access trace of every operation is compared with the Lean model and, independently, checked
//! against the virtio-mmio register map of the specification (§4.2.2 / §4.2.4).

use crate::mmio::{self, Access, MmioDevice};
use crate::proto::Case;
use crate::rng::Rng;
use crate::runner::{Ctx, Tier, guarded};
use std::cell::RefCell;
use std::collections::{BTreeMap, VecDeque};
use std::ptr::NonNull;
use std::rc::Rc;
use virtio_drivers::transport::mmio::{MmioError, MmioTransport, MmioVersion, VirtIOHeader};
use virtio_drivers::transport::{DeviceStatus, SomeTransport, Transport};

/// fake, never dereferenced; 8-byte aligned
pub const HDR_BASE: usize = 0x5000_0000_0000;
pub const MAGIC: u32 = 0x7472_6976;
pub const SCRIPT_EXHAUSTED: &str = "device script exhausted";

/// Register-level device whose read answers are scripted by the case: the identification
/// registers (offsets < 0x10) are answered from `hdr`, every other read pops the next script value.
#[derive(Default)]
pub struct Script {
    pub hdr: [u32; 4],
    pub script: VecDeque<u32>,
    /// last value written to the Status register
    pub status: u32,
    /// reads of the Status register are answered from the script (operation `get_status`); otherwise
    /// from the latched value: an extra read of the status register by another operation is harmless
    /// and not part of the compared trace
    pub status_scripted: bool,
}

pub struct ScriptDev(pub Rc<RefCell<Script>>);

impl MmioDevice for ScriptDev {
    fn read(&mut self, offset: usize, width: u8) -> u64 {
        let mut s = self.0.borrow_mut();
        if offset < 0x10 && width == 4 && offset % 4 == 0 {
            return s.hdr[offset / 4] as u64;
        }
        if offset == 0x70 && width == 4 && !s.status_scripted {
            return s.status as u64;
        }
        match s.script.pop_front() {
            Some(v) => v as u64,
            None => panic!("{}", SCRIPT_EXHAUSTED),
        }
    }
    fn write(&mut self, offset: usize, width: u8, value: u64) {
        if offset == 0x70 && width == 4 {
            self.0.borrow_mut().status = value as u32;
        }
    }
}

/// Installs a fresh scripted device of `region_len` bytes at `HDR_BASE`.
pub fn install(hdr: [u32; 4], region_len: usize) -> Rc<RefCell<Script>> {
    mmio::reset();
    let st = Rc::new(RefCell::new(Script { hdr, script: VecDeque::new(), status: 0, status_scripted: false }));
    mmio::register(HDR_BASE, region_len, "hdr", Box::new(ScriptDev(st.clone())));
    st
}

pub fn header_ptr() -> NonNull<VirtIOHeader> {
    NonNull::new(HDR_BASE as *mut VirtIOHeader).unwrap()
}

pub fn canon_trace(t: &[Access]) -> String {
    if t.is_empty() {
        return "-".into();
    }
    t.iter().map(|a| format!("{}{}@{:#x}={:#x}", if a.write { "W" } else { "R" }, a.width as u32 * 8, a.offset, a.value)).collect::<Vec<_>>().join(" ")
}

bitflags::bitflags! {
    /// a feature type in which every bit is "known", so that `begin_init` negotiates `offered & supported`
    #[derive(Clone, Copy, Debug, PartialEq, Eq)]
    pub struct AnyBits: u64 {
        const _ = !0;
    }
}

#[derive(Clone, Debug)]
pub enum Op {
    BeginInit { supported: u64 },
    ReadFeatures,
    WriteFeatures(u64),
    MaxQueueSize(u16),
    Notify(u16),
    GetStatus,
    SetStatus(u32),
    SetGuestPageSize(u32),
    RequiresLegacy,
    QueueSet { q: u16, size: u32, desc: u64, drv: u64, dev: u64 },
    QueueUnset(u16),
    QueueUsed(u16),
    AckInterrupt,
    ReadGeneration,
    VendorId,
}

impl Op {
    fn line(&self, ver: u32, via: &str, reads: &[u32]) -> String {
        let r = if reads.is_empty() { "-".to_string() } else { reads.iter().map(|x| format!("{:#x}", x)).collect::<Vec<_>>().join(",") };
        let body = match self {
            Op::BeginInit { supported } => format!("begin_init supported={:#x}", supported),
            Op::ReadFeatures => "read_features".into(),
            Op::WriteFeatures(f) => format!("write_features f={:#x}", f),
            Op::MaxQueueSize(q) => format!("max_queue_size q={}", q),
            Op::Notify(q) => format!("notify q={}", q),
            Op::GetStatus => "get_status".into(),
            Op::SetStatus(s) => format!("set_status s={:#x}", s),
            Op::SetGuestPageSize(p) => format!("set_guest_page_size p={:#x}", p),
            Op::RequiresLegacy => "requires_legacy_layout".into(),
            Op::QueueSet { q, size, desc, drv, dev } => format!("queue_set q={} size={} desc={:#x} drv={:#x} dev={:#x}", q, size, desc, drv, dev),
            Op::QueueUnset(q) => format!("queue_unset q={}", q),
            Op::QueueUsed(q) => format!("queue_used q={}", q),
            Op::AckInterrupt => "ack_interrupt".into(),
            Op::ReadGeneration => "read_generation".into(),
            Op::VendorId => "vendor_id".into(),
        };
        format!("mmio {} ver={} via={} reads={}", body, ver, via, r)
    }
    fn queue(&self) -> Option<u16> {
        match self {
            Op::MaxQueueSize(q) | Op::QueueUnset(q) | Op::QueueUsed(q) => Some(*q),
            Op::QueueSet { q, .. } => Some(*q),
            _ => None,
        }
    }
}

/// Runs one `Transport` operation on the real code; returns the canonical result.
fn apply<T: Transport>(t: &mut T, op: &Op) -> String {
    match op {
        Op::BeginInit { supported } => format!("ok {:#x}", t.begin_init(AnyBits::from_bits_retain(*supported)).bits()),
        Op::ReadFeatures => format!("ok {:#x}", t.read_device_features()),
        Op::WriteFeatures(f) => {
            t.write_driver_features(*f);
            "ok".into()
        }
        Op::MaxQueueSize(q) => format!("ok {:#x}", t.max_queue_size(*q)),
        Op::Notify(q) => {
            t.notify(*q);
            "ok".into()
        }
        Op::GetStatus => format!("ok {:#x}", t.get_status().bits()),
        Op::SetStatus(s) => {
            t.set_status(DeviceStatus::from_bits_retain(*s));
            "ok".into()
        }
        Op::SetGuestPageSize(p) => {
            t.set_guest_page_size(*p);
            "ok".into()
        }
        Op::RequiresLegacy => format!("ok {}", t.requires_legacy_layout() as u8),
        Op::QueueSet { q, size, desc, drv, dev } => {
            t.queue_set(*q, *size, *desc, *drv, *dev);
            "ok".into()
        }
        Op::QueueUnset(q) => {
            t.queue_unset(*q);
            "ok".into()
        }
        Op::QueueUsed(q) => format!("ok {}", t.queue_used(*q) as u8),
        Op::AckInterrupt => format!("ok {:#x}", t.ack_interrupt().bits()),
        Op::ReadGeneration => format!("ok {:#x}", t.read_config_generation()),
        Op::VendorId => unreachable!(),
    }
}

pub enum Tr {
    Direct(MmioTransport<'static>),
    Some(SomeTransport<'static>),
}

/// result of running one op: (canonical result, trace)
fn run_op(tr: &mut Tr, op: &Op) -> (String, Vec<Access>) {
    let r = guarded(|| match tr {
        Tr::Direct(t) => {
            if let Op::VendorId = op {
                format!("ok {:#x}", t.vendor_id())
            } else {
                apply(t, op)
            }
        }
        Tr::Some(t) => apply(t, op),
    });
    let trace = mmio::take_trace();
    match r {
        Ok(s) => (s, trace),
        Err(p) if p.contains(SCRIPT_EXHAUSTED) => ("stuck".into(), trace),
        Err(_) => ("panic".into(), trace),
    }
}

// -------------------------------------------------------------------------------------------
// The specification's register map (virtio 1.2 §4.2.2 Table 4.1, §4.2.4 Table 4.2), written
// from the specification text for the oracle; deliberately not shared with the Lean table.
// -------------------------------------------------------------------------------------------

#[derive(Clone, Copy, PartialEq, Eq, Debug)]
pub enum Dir {
    R,
    W,
    RW,
}
#[derive(Clone, Copy, PartialEq, Eq, Debug)]
pub enum Avail {
    Both,
    Legacy,
    Modern,
}
pub struct RegSpec {
    pub off: usize,
    pub name: &'static str,
    pub dir: Dir,
    pub avail: Avail,
    pub per_queue: bool,
}
const fn reg(off: usize, name: &'static str, dir: Dir, avail: Avail, per_queue: bool) -> RegSpec {
    RegSpec { off, name, dir, avail, per_queue }
}
pub const REGS: &[RegSpec] = &[
    reg(0x000, "MagicValue", Dir::R, Avail::Both, false),
    reg(0x004, "Version", Dir::R, Avail::Both, false),
    reg(0x008, "DeviceID", Dir::R, Avail::Both, false),
    reg(0x00c, "VendorID", Dir::R, Avail::Both, false),
    reg(0x010, "DeviceFeatures", Dir::R, Avail::Both, false),
    reg(0x014, "DeviceFeaturesSel", Dir::W, Avail::Both, false),
    reg(0x020, "DriverFeatures", Dir::W, Avail::Both, false),
    reg(0x024, "DriverFeaturesSel", Dir::W, Avail::Both, false),
    reg(0x028, "GuestPageSize", Dir::W, Avail::Legacy, false),
    reg(0x030, "QueueSel", Dir::W, Avail::Both, false),
    reg(0x034, "QueueNumMax", Dir::R, Avail::Both, true),
    reg(0x038, "QueueNum", Dir::W, Avail::Both, true),
    reg(0x03c, "QueueAlign", Dir::W, Avail::Legacy, true),
    reg(0x040, "QueuePFN", Dir::RW, Avail::Legacy, true),
    reg(0x044, "QueueReady", Dir::RW, Avail::Modern, true),
    reg(0x050, "QueueNotify", Dir::W, Avail::Both, false),
    reg(0x060, "InterruptStatus", Dir::R, Avail::Both, false),
    reg(0x064, "InterruptACK", Dir::W, Avail::Both, false),
    reg(0x070, "Status", Dir::RW, Avail::Both, false),
    reg(0x080, "QueueDescLow", Dir::W, Avail::Modern, true),
    reg(0x084, "QueueDescHigh", Dir::W, Avail::Modern, true),
    reg(0x090, "QueueDriverLow", Dir::W, Avail::Modern, true),
    reg(0x094, "QueueDriverHigh", Dir::W, Avail::Modern, true),
    reg(0x0a0, "QueueDeviceLow", Dir::W, Avail::Modern, true),
    reg(0x0a4, "QueueDeviceHigh", Dir::W, Avail::Modern, true),
    reg(0x0ac, "SHMSel", Dir::W, Avail::Modern, false),
    reg(0x0b0, "SHMLenLow", Dir::R, Avail::Modern, false),
    reg(0x0b4, "SHMLenHigh", Dir::R, Avail::Modern, false),
    reg(0x0b8, "SHMBaseLow", Dir::R, Avail::Modern, false),
    reg(0x0bc, "SHMBaseHigh", Dir::R, Avail::Modern, false),
    reg(0x0c0, "QueueReset", Dir::RW, Avail::Modern, true),
    reg(0x0fc, "ConfigGeneration", Dir::R, Avail::Modern, false),
];

pub fn spec_reg(off: usize) -> Option<&'static RegSpec> {
    REGS.iter().find(|r| r.off == off)
}
fn off_of(name: &str) -> usize {
    REGS.iter().find(|r| r.name == name).unwrap().off
}

/// Failure text for the defect fixed by /repo 058e2dd (listed as `fixed:` in `KNOWN_FINDINGS`): the
/// `legacy-generation` stream and the random legacy sessions keep exercising it, so a revert is flagged.
pub const LEGACY_GENERATION_FINDING: &str = "legacy device: read of offset 0xfc (ConfigGeneration), a register the legacy layout of the specification (4.2.4) does not define";

/// O1: width, offset, direction and interface version of every access.
pub fn oracle_legal(legacy: bool, trace: &[Access]) -> Vec<String> {
    let mut out = vec![];
    for a in trace {
        if a.region != "hdr" {
            out.push(format!("access outside the register block: {}", a.canon()));
            continue;
        }
        if a.width != 4 {
            out.push(format!("{}-bit access at {:#x} (registers must be accessed 32 bits wide)", a.width as u32 * 8, a.offset));
        }
        match spec_reg(a.offset) {
            None => out.push(format!("access at {:#x}: not a register of the specification", a.offset)),
            Some(r) => {
                let there = match r.avail {
                    Avail::Both => true,
                    Avail::Legacy => legacy,
                    Avail::Modern => !legacy,
                };
                if !there {
                    if legacy && r.off == 0xfc && !a.write {
                        out.push(LEGACY_GENERATION_FINDING.to_string());
                    } else {
                        out.push(format!("{} of {} ({:#x}) on a {} device", if a.write { "write" } else { "read" }, r.name, r.off, if legacy { "legacy" } else { "modern" }));
                    }
                }
                if a.write && r.dir == Dir::R {
                    out.push(format!("write to read-only register {}", r.name));
                }
                if !a.write && r.dir == Dir::W {
                    out.push(format!("read of write-only register {}", r.name));
                }
            }
        }
    }
    out
}

/// O2: every access to a per-queue register is preceded, in the same operation, by
/// `QueueSel := queue`, with no other selection in between.
pub fn oracle_sel(queue: Option<u16>, trace: &[Access]) -> Vec<String> {
    let mut out = vec![];
    let mut cur: Option<u64> = None;
    let sel = off_of("QueueSel");
    for a in trace {
        if a.write && a.offset == sel {
            cur = Some(a.value);
            if queue.map(|q| q as u64) != Some(a.value) {
                out.push(format!("QueueSel := {} in an operation on queue {:?}", a.value, queue));
            }
        } else if spec_reg(a.offset).map(|r| r.per_queue).unwrap_or(false) {
            match (queue, cur) {
                (Some(q), Some(c)) if c == q as u64 => {}
                _ => out.push(format!("per-queue register {:#x} accessed while QueueSel is {:?} (operation on queue {:?})", a.offset, cur, queue)),
            }
        }
    }
    out
}

fn writes_to<'a>(trace: &'a [Access], name: &str) -> Vec<(usize, &'a Access)> {
    let o = off_of(name);
    trace.iter().enumerate().filter(|(_, a)| a.write && a.offset == o).collect()
}

/// O3–O10: operation-specific predicates from the specification and the property text.
pub fn oracle_op(legacy: bool, op: &Op, result: &str, trace: &[Access], page_size: Option<u32>) -> Vec<String> {
    let mut out = vec![];
    let single_write = |name: &str, v: u64, out: &mut Vec<String>| {
        if !(trace.len() == 1 && trace[0].write && trace[0].offset == off_of(name) && trace[0].value == v) {
            out.push(format!("expected exactly one write {} := {:#x}, got [{}]", name, v, canon_trace(trace)));
        }
    };
    let pair = |lo: &str, hi: &str, want: u64, before: usize, out: &mut Vec<String>| {
        let l = writes_to(&trace[..before], lo);
        let h = writes_to(&trace[..before], hi);
        if l.len() != 1 || h.len() != 1 {
            out.push(format!("{}/{} not written exactly once before the queue is made ready", lo, hi));
        } else if l[0].1.value + (h[0].1.value << 32) != want || l[0].1.value > u32::MAX as u64 {
            out.push(format!("{}={:#x} {}={:#x} do not recombine to {:#x}", lo, l[0].1.value, hi, h[0].1.value, want));
        }
    };
    if result == "stuck" {
        return out;
    }
    match op {
        Op::SetStatus(s) => single_write("Status", *s as u64, &mut out),
        Op::Notify(q) => single_write("QueueNotify", *q as u64, &mut out),
        Op::QueueSet { size, desc, drv, dev, .. } if !legacy => {
            let ready = writes_to(trace, "QueueReady");
            if ready.len() != 1 || ready[0].0 != trace.len() - 1 || ready[0].1.value != 1 {
                out.push("modern queue_set: QueueReady := 1 is not the single, last access".into());
            } else {
                let last = trace.len() - 1;
                let n = writes_to(&trace[..last], "QueueNum");
                if n.len() != 1 || n[0].1.value != *size as u64 {
                    out.push("QueueNum not written (once, with the size) before QueueReady".into());
                }
                pair("QueueDescLow", "QueueDescHigh", *desc, last, &mut out);
                pair("QueueDriverLow", "QueueDriverHigh", *drv, last, &mut out);
                pair("QueueDeviceLow", "QueueDeviceHigh", *dev, last, &mut out);
            }
        }
        Op::QueueSet { size, desc, .. } if legacy && result != "panic" => {
            let num = writes_to(trace, "QueueNum");
            let al = writes_to(trace, "QueueAlign");
            let pfn = writes_to(trace, "QueuePFN");
            if num.len() != 1 || al.len() != 1 || pfn.len() != 1 {
                out.push("legacy queue_set: QueueNum, QueueAlign, QueuePFN not each written once".into());
            } else {
                if !(num[0].0 < pfn[0].0 && al[0].0 < pfn[0].0 && pfn[0].0 == trace.len() - 1) {
                    out.push("legacy queue_set: QueuePFN is not written last, after size and alignment".into());
                }
                if num[0].1.value != *size as u64 {
                    out.push("legacy queue_set: QueueNum != size".into());
                }
                if !(al[0].1.value as u32).is_power_of_two() {
                    out.push("legacy queue_set: QueueAlign is not a power of two".into());
                }
                if pfn[0].1.value == 0 {
                    out.push("legacy queue_set: QueuePFN = 0 (means: queue unused)".into());
                }
                if let Some(ps) = page_size {
                    if pfn[0].1.value * ps as u64 != *desc {
                        out.push(format!("legacy queue_set: QueuePFN {:#x} * GuestPageSize {:#x} != descriptor address {:#x}", pfn[0].1.value, ps, desc));
                    }
                }
            }
        }
        Op::QueueSet { .. } if legacy && result == "panic" => {
            if !trace.is_empty() {
                out.push("legacy queue_set panicked after touching registers".into());
            }
        }
        Op::QueueUnset(_) if !legacy => {
            // after the selection: QueueReady := 0 first; no parameter register is written before a
            // zero has been read back from QueueReady
            let body: Vec<&Access> = trace.iter().filter(|a| a.offset != off_of("QueueSel")).collect();
            if body.first().map(|a| !(a.write && a.offset == off_of("QueueReady") && a.value == 0)).unwrap_or(true) {
                out.push("modern queue_unset does not start with QueueReady := 0".into());
            }
            let mut zero_seen = false;
            for a in body.iter().skip(1) {
                if !a.write && a.offset == off_of("QueueReady") {
                    if a.value == 0 {
                        zero_seen = true;
                    }
                } else if a.write && !zero_seen {
                    out.push(format!("modern queue_unset writes {:#x} before QueueReady read back 0", a.offset));
                }
            }
        }
        Op::QueueUnset(_) if legacy => {
            let pfn = writes_to(trace, "QueuePFN");
            if pfn.len() != 1 || pfn[0].1.value != 0 {
                out.push("legacy queue_unset does not write QueuePFN := 0".into());
            }
        }
        Op::AckInterrupt => {
            let reads: Vec<&Access> = trace.iter().filter(|a| !a.write).collect();
            let writes: Vec<&Access> = trace.iter().filter(|a| a.write).collect();
            if reads.len() != 1 || reads[0].offset != off_of("InterruptStatus") {
                out.push("ack_interrupt does not read InterruptStatus exactly once".into());
            } else {
                let x = reads[0].value;
                if x == 0 && !writes.is_empty() {
                    out.push("ack_interrupt wrote although no interrupt was pending".into());
                }
                if x != 0 && !(writes.len() == 1 && writes[0].offset == off_of("InterruptACK") && writes[0].value == x) {
                    out.push(format!("ack_interrupt read {:#x} but did not write back exactly that to InterruptACK", x));
                }
                if result != format!("ok {:#x}", x & 3) {
                    out.push(format!("ack_interrupt read {:#x} and returned {}", x, result));
                }
            }
        }
        Op::ReadFeatures => {
            // each DeviceFeatures read under the selector written last; words recombine
            let mut sel = None;
            let mut words: BTreeMap<u64, u64> = BTreeMap::new();
            for a in trace {
                if a.write && a.offset == off_of("DeviceFeaturesSel") {
                    sel = Some(a.value);
                } else if !a.write && a.offset == off_of("DeviceFeatures") {
                    match sel {
                        None => out.push("DeviceFeatures read before DeviceFeaturesSel was written".into()),
                        Some(s) => {
                            words.insert(s, a.value);
                        }
                    }
                }
            }
            let want = words.get(&0).copied().unwrap_or(0) | (words.get(&1).copied().unwrap_or(0) << 32);
            if words.len() != 2 || result != format!("ok {:#x}", want) {
                out.push(format!("read_device_features: words {:?} but result {}", words, result));
            }
        }
        Op::WriteFeatures(f) => {
            let mut sel = None;
            let mut words: BTreeMap<u64, u64> = BTreeMap::new();
            for a in trace {
                if a.write && a.offset == off_of("DriverFeaturesSel") {
                    sel = Some(a.value);
                } else if a.write && a.offset == off_of("DriverFeatures") {
                    match sel {
                        None => out.push("DriverFeatures written before DriverFeaturesSel".into()),
                        Some(s) => {
                            words.insert(s, a.value);
                        }
                    }
                }
            }
            if words.len() != 2 || words.get(&0).copied() != Some(*f & 0xffff_ffff) || words.get(&1).copied() != Some(*f >> 32) {
                out.push(format!("write_driver_features({:#x}) wrote words {:?}", f, words));
            }
        }
        Op::SetGuestPageSize(p) if legacy => single_write("GuestPageSize", *p as u64, &mut out),
        Op::ReadGeneration if legacy => {
            // the legacy layout has no generation register: nothing may be touched
            if !trace.is_empty() {
                out.push("read_config_generation on a legacy device touched registers".into());
            }
        }
        Op::SetGuestPageSize(_) | Op::RequiresLegacy => {
            if !trace.is_empty() {
                out.push("operation without device interaction touched registers".into());
            }
        }
        _ => {}
    }
    out
}

// -------------------------------------------------------------------------------------------
// generators
// -------------------------------------------------------------------------------------------

fn gen_legacy_queue(rng: &mut Rng) -> (u32, u64, u64, u64) {
    let size: u32 = match rng.below(4) {
        0 => 1 << rng.below(16),
        1 => rng.u32_biased(),
        _ => 1 << rng.below(11),
    };
    let desc: u64 = match rng.below(5) {
        0 => 0x1000 * rng.below(1 << 20),
        1 => 0xffff_ffffu64 * 0x1000 - 0x1000 * rng.below(3),
        2 => 0x1000 * (0xffff_fffe + rng.below(4)),
        _ => 0x1000 * (1 + rng.below(1 << 32)),
    };
    let drv = desc.wrapping_add(16 * size as u64);
    let x = 16 * size as u64 + 2 * (size as u64 + 3);
    let dev = desc.wrapping_add((x + 4096) & !4095);
    (size, desc, drv, dev)
}

fn gen_op(rng: &mut Rng, legacy: bool, direct: bool) -> Op {
    let q = rng.u16_biased();
    loop {
        return match rng.below(16) {
            0 => Op::ReadFeatures,
            1 => Op::WriteFeatures(rng.u64_biased()),
            2 => Op::MaxQueueSize(q),
            3 => Op::Notify(q),
            4 => Op::GetStatus,
            5 => Op::SetStatus(if rng.chance(1, 2) { rng.below(256) as u32 } else { rng.u32_biased() }),
            6 => Op::SetGuestPageSize(if rng.chance(1, 2) { 4096 } else { rng.u32_biased() }),
            7 | 8 | 9 => {
                if legacy {
                    let (size, mut desc, mut drv, mut dev) = gen_legacy_queue(rng);
                    // malformed variants (assertions must fire before any access)
                    match rng.below(10) {
                        0 => desc = desc.wrapping_add(rng.range(1, 4095)),
                        1 => drv = drv.wrapping_add(rng.range(1, 64)),
                        2 => dev = dev.wrapping_add(4096),
                        3 => drv = desc.wrapping_sub(16),
                        4 => dev = rng.u64_biased(),
                        _ => {}
                    }
                    Op::QueueSet { q, size, desc, drv, dev }
                } else {
                    Op::QueueSet { q, size: rng.u32_biased(), desc: rng.u64_biased(), drv: rng.u64_biased(), dev: rng.u64_biased() }
                }
            }
            10 => Op::QueueUnset(q),
            11 => Op::QueueUsed(q),
            12 => Op::AckInterrupt,
            13 => Op::ReadGeneration,
            14 => Op::RequiresLegacy,
            _ => {
                if direct {
                    Op::VendorId
                } else {
                    continue;
                }
            }
        };
    }
}

/// the read answers the device will give during this operation
fn gen_reads(rng: &mut Rng, op: &Op, legacy: bool, vendor: u32) -> Vec<u32> {
    match op {
        Op::ReadFeatures | Op::BeginInit { .. } => vec![rng.u32_biased(), rng.u32_biased()],
        Op::MaxQueueSize(_) | Op::GetStatus | Op::ReadGeneration => vec![rng.u32_biased()],
        Op::QueueUsed(_) => vec![if rng.chance(1, 2) { 0 } else { rng.u32_biased() }],
        Op::AckInterrupt => vec![match rng.below(4) {
            0 => 0,
            1 => rng.range(1, 3) as u32,
            _ => rng.u32_biased(),
        }],
        Op::QueueUnset(_) if !legacy => {
            let k = rng.below(5);
            let mut v: Vec<u32> = (0..k).map(|_| if rng.chance(1, 2) { 1 } else { rng.u32_biased() | 1 }).collect();
            if !rng.chance(1, 8) {
                v.push(0); // 1 in 8: the device never clears QueueReady ⇒ `stuck`
            }
            v
        }
        Op::VendorId => vec![vendor],
        _ => vec![],
    }
}

#[derive(Clone, Copy, PartialEq, Eq)]
enum Kind {
    Random,
    Init,
    /// legacy device, `read_config_generation` only (regression stream for /repo 058e2dd)
    LegacyGeneration,
}

fn session(ctx: &Ctx, idx: usize, id: String, kind: Kind) -> Case {
    let init_first = kind == Kind::Init;
    let mut rng = ctx.case_rng(match kind { Kind::Init => "init", Kind::Random => "session", Kind::LegacyGeneration => "legacy-generation" }, idx);
    let mut c = Case::new(id);
    crate::hal::reset();
    let legacy = kind == Kind::LegacyGeneration || rng.chance(1, 2);
    let direct = if kind == Kind::LegacyGeneration { idx % 2 == 0 } else { rng.chance(1, 2) };
    let ver = if legacy { 1 } else { 2 };
    let via = if direct { "direct" } else { "some" };
    let devid = *rng.pick(&[1u32, 2, 3, 4, 9, 16, 18, 19, 25]);
    let vendor = rng.u32_biased();
    let size = 0x100 + rng.below(0x200) as usize;
    let st = install([MAGIC, ver, devid, vendor], 0x400);
    c.tag(if legacy { "legacy" } else { "modern" });
    c.tag(via);
    // probe
    let r = guarded(|| unsafe { MmioTransport::new(header_ptr(), size) });
    let tr0 = mmio::take_trace();
    let line = format!("mmio probe size={:#x} magic={:#x} version={} devid={}", size, MAGIC, ver, devid);
    let t = match r {
        Ok(Ok(t)) => {
            let dt = t.device_type() as u8;
            // (which header registers the probe reads, and in which order, is not fixed by the property: the
            // oracles below check that it writes nothing and reads only defined registers)
            let _ = &tr0;
            c.step(line, format!("=> ok version={} type={} cfglen={}", ver, dt, size - 0x100));
            t
        }
        other => {
            c.step(line, "=> unexpected".to_string());
            c.fail(format!("probe of a valid header failed: {:?}", other.map(|r| r.map(|_| ()))));
            return c;
        }
    };
    for f in oracle_legal(legacy, &tr0) {
        c.fail(format!("probe: {}", f));
    }
    if tr0.iter().any(|a| a.write) {
        c.fail("probe wrote to the device");
    }
    let mut tr = if direct { Tr::Direct(t) } else { Tr::Some(t.into()) };
    let nops = if kind == Kind::LegacyGeneration { 2 } else { 8 + rng.below(if ctx.tier == Tier::Quick { 24 } else { 56 }) as usize };
    let mut page_size: Option<u32> = None;
    let mut page_size_written = false;
    let mut init_panicked = false;
    let mut stuck = false;
    let mut writes = 0usize;
    for k in 0..nops {
        let op = if init_first && k == 0 {
            // offered VERSION_1 must be accepted: keep bit 32 in `supported` most of the time
            let mut s = rng.u64_biased();
            if !rng.chance(1, 6) {
                s |= 1 << 32;
            }
            Op::BeginInit { supported: s }
        } else if init_first && k == 1 && legacy {
            let (size, desc, drv, dev) = gen_legacy_queue(&mut rng);
            Op::QueueSet { q: rng.below(4) as u16, size, desc, drv, dev }
        } else if kind == Kind::LegacyGeneration {
            Op::ReadGeneration
        } else {
            gen_op(&mut rng, legacy, direct)
        };
        let reads = gen_reads(&mut rng, &op, legacy, vendor);
        st.borrow_mut().script = reads.iter().copied().collect();
        st.borrow_mut().status_scripted = matches!(op, Op::GetStatus);
        let (res, trace) = run_op(&mut tr, &op);
        st.borrow_mut().script.clear();
        st.borrow_mut().status_scripted = false;
        // un-scripted reads of the status register are not compared (see `Script`)
        let trace: Vec<Access> = if matches!(op, Op::GetStatus) { trace } else { trace.into_iter().filter(|a| a.write || a.offset != 0x70).collect() };
        c.tag(op.line(0, "", &[]).split(' ').nth(1).unwrap_or("?").to_string());
        // oracles on the real trace
        for f in oracle_legal(legacy, &trace) {
            c.fail(format!("{}: {}", op.line(ver, via, &reads), f));
        }
        for f in oracle_sel(op.queue(), &trace) {
            c.fail(format!("{}: {}", op.line(ver, via, &reads), f));
        }
        if let Op::BeginInit { .. } = op {
            // composite: checked through its parts' predicates (legality, selectors) only
        } else {
            for f in oracle_op(legacy, &op, &res, &trace, page_size) {
                c.fail(format!("{}: {}", op.line(ver, via, &reads), f));
            }
        }
        if trace.iter().any(|a| a.write && a.offset == 0x28) {
            page_size_written = true;
        }
        if init_first && legacy && matches!(op, Op::QueueSet { .. }) && res == "ok" && !page_size_written && !init_panicked {
            c.fail("legacy queue configured although GuestPageSize was never written in this initialisation");
        }
        // the page size a legacy device multiplies the PFN with: the one `begin_init` announced
        // (a later arbitrary `set_guest_page_size` is the harness' doing, not the driver's)
        if let Op::BeginInit { .. } = op {
            init_panicked = res == "panic";
            for a in &trace {
                if a.write && a.offset == 0x28 {
                    page_size = Some(a.value as u32);
                }
            }
        } else if let Op::SetGuestPageSize(_) = op {
            page_size = None;
        }
        writes += trace.iter().filter(|a| a.write).count();
        // modern `queue_set`: the parameter writes between QueueSel and QueueReady form an unordered
        // group (the property orders only "select first, ready last"; the legacy sequence page size,
        // alignment, page frame number is ordered by the property and stays a sequence)
        let tstr = match op {
            Op::QueueSet { .. } if !legacy && trace.len() >= 3 => {
                let all: Vec<String> = trace.iter().map(|a| canon_trace(std::slice::from_ref(a))).collect();
                format!("{} {{ {} }} {}", all[0], all[1..all.len() - 1].join(" "), all[all.len() - 1])
            }
            _ => canon_trace(&trace),
        };
        c.step(op.line(ver, via, &reads), format!("{} => {}", tstr, res));
        if res == "stuck" {
            c.tag("stuck");
            stuck = true;
            break;
        }
        if res == "panic" {
            c.tag("panic");
        }
    }
    if stuck {
        // the scripted device was consumed by the unwinding; do not reuse it
        std::mem::forget(tr);
    } else {
        drop(tr);
        let trace = mmio::take_trace();
        if !(trace.len() == 1 && trace[0].write && trace[0].offset == 0x70 && trace[0].value == 0 && trace[0].width == 4) {
            c.fail(format!("drop did not reset the device with a single Status := 0: [{}]", canon_trace(&trace)));
        }
        c.step(format!("mmio drop ver={} via={}", ver, via), format!("{} => ok", canon_trace(&trace)));
    }
    for v in mmio::with(|b| std::mem::take(&mut b.violations)) {
        c.fail(format!("bus: {}", v));
    }
    c.nontrivial = writes > 0;
    c
}

fn err_str(e: &MmioError) -> String {
    match e {
        MmioError::BadMagic(m) => format!("BadMagic({:#x})", m),
        MmioError::UnsupportedVersion(v) => format!("UnsupportedVersion({:#x})", v),
        MmioError::InvalidDeviceID(virtio_drivers::transport::DeviceTypeError::InvalidDeviceType(d)) => format!("InvalidDeviceID({:#x})", d),
        MmioError::MmioRegionTooSmall => "MmioRegionTooSmall".into(),
    }
}

/// device types defined by the specification that the crate's `DeviceType` covers (1–13, 16–25)
fn spec_known(id: u32) -> bool {
    (1..=13).contains(&id) || (16..=25).contains(&id)
}

/// all header variants tried at every region size
fn header_variants() -> Vec<(u32, u32, u32)> {
    let mut v = vec![];
    for ver in [1u32, 2] {
        for id in 0..=30u32 {
            v.push((MAGIC, ver, id));
        }
        for id in [0xffu32, 0x100, 0x102, 0xffff, 0x10002, 0x8000_0002, 0xffff_ffff] {
            v.push((MAGIC, ver, id));
        }
    }
    for ver in [0u32, 3, 4, 0x100, 0x101, 0x102, 0x201, 0x1_0000, 0x8000_0001, 0xffff_ffff] {
        v.push((MAGIC, ver, 2));
        v.push((MAGIC, ver, 0));
    }
    for m in [0u32, 1, MAGIC ^ 1, MAGIC ^ 0x8000_0000, MAGIC.swap_bytes(), MAGIC >> 8, MAGIC << 8, MAGIC - 1, MAGIC + 1, 0xffff_ffff, 0x7472_6900, 0x0072_6976] {
        v.push((m, 2, 2));
        v.push((m, 1, 0));
        v.push((m, 7, 99));
    }
    v
}

fn probe_case(size: usize, id: String) -> Case {
    let mut c = Case::new(id);
    c.tag("probe");
    for (magic, ver, devid) in header_variants() {
        let _st = install([magic, ver, devid, 0x554d4551], 0x400);
        let r = guarded(|| unsafe { MmioTransport::new(header_ptr(), size) });
        let tr0 = mmio::take_trace();
        let line = format!("mmio probe size={:#x} magic={:#x} version={:#x} devid={:#x}", size, magic, ver, devid);
        let accepted;
        let out = match r {
            Ok(Ok(t)) => {
                accepted = true;
                let dt = t.device_type() as u8;
                let v = match t.version() {
                    MmioVersion::Legacy => 1,
                    MmioVersion::Modern => 2,
                };
                if v != ver {
                    c.fail(format!("{}: transport reports version {} for a device of version {}", line, v, ver));
                }
                let legacy_flag = t.requires_legacy_layout();
                if legacy_flag != (ver == 1) {
                    c.fail(format!("{}: requires_legacy_layout = {}", line, legacy_flag));
                }
                drop(t);
                let d = mmio::take_trace();
                if !(d.len() == 1 && d[0].write && d[0].offset == 0x70 && d[0].value == 0 && d[0].width == 4) {
                    c.fail(format!("{}: drop did not write Status := 0 exactly once: [{}]", line, canon_trace(&d)));
                }
                c.nontrivial = true;
                format!("=> ok version={} type={} cfglen={}", v, dt, size.wrapping_sub(0x100) as isize)
            }
            Ok(Err(e)) => {
                accepted = false;
                format!("=> err {}", err_str(&e))
            }
            Err(p) => {
                accepted = false;
                c.fail(format!("{}: probe panicked: {}", line, p));
                "=> panic".to_string()
            }
        };
        // oracle (property text): accepts only correct magic, version 1 or 2, known non-zero type,
        // region at least as large as the register block; writes nothing; legal 32-bit reads only
        let must_reject = magic != MAGIC || !(ver == 1 || ver == 2) || devid == 0 || size < 0x100 || !spec_known(devid);
        if accepted && must_reject {
            c.fail(format!("{}: accepted", line));
        }
        if !accepted && !must_reject && spec_known(devid) {
            c.fail(format!("{}: a valid header of a known device type was rejected", line));
        }
        if tr0.iter().any(|a| a.write) {
            c.fail(format!("{}: probe wrote to the device", line));
        }
        if size < 0x100 && !tr0.is_empty() {
            c.fail(format!("{}: device touched although the region is smaller than the register block", line));
        }
        for f in oracle_legal(false, &tr0).into_iter().chain(oracle_legal(true, &tr0)) {
            c.fail(format!("{}: {}", line, f));
        }
        for v in mmio::with(|b| std::mem::take(&mut b.violations)) {
            c.fail(format!("{}: bus: {}", line, v));
        }
        c.step(line, out);
    }
    c
}

pub fn run(ctx: &Ctx) -> (Vec<Case>, String, bool, BTreeMap<String, String>) {
    let nsess = ctx.tier.pick(1500, 60000);
    let ninit = ctx.tier.pick(300, 6000);
    let mut all = crate::runner::par_cases(ctx, "C10", "session", nsess, |i, id| session(ctx, i, id, Kind::Random));
    all.extend(crate::runner::par_cases(ctx, "C10", "init", ninit, |i, id| session(ctx, i, id, Kind::Init)));
    all.extend(crate::runner::par_cases(ctx, "C10", "legacy-generation", 4, |i, id| session(ctx, i, id, Kind::LegacyGeneration)));
    // probe: every region size 0..=0x300 (both tiers), every header variant
    all.extend(crate::runner::par_cases(ctx, "C10", "probe", 0x301, |i, id| probe_case(i, id)));
    // configuration accesses of every type at every offset around the end of the configuration space,
    // for every length of it (C13's stream): only the device's own region is touched, refusals are errors
    // multi-field configuration reads over the real MMIO transport while the device changes its
    // configuration (C13's stream, MMIO rows): the generation register is consulted around every attempt
    // and the read ends once the device is quiet
    let mmio_rows: Vec<usize> = (0..45).filter(|i| (i / 5) % 3 == 1).collect();
    let mut u = crate::runner::par_cases(ctx, "C10", "untorn-mmio", mmio_rows.len(), |i, id| crate::c13_config::consistent_case(ctx, mmio_rows[i], id));
    for c in u.iter_mut() {
        c.tag("config-generation");
    }
    all.extend(u);
    let mut b = crate::c13_config::bounds_cases_mmio(ctx, "C10");
    for c in b.iter_mut() {
        c.id = format!("C10-via-{}", c.id);
        c.tag("config-bounds");
    }
    all.extend(b);
    let rule = format!(
        "sessions: probe a valid header (version 1 or 2, directly or through SomeTransport), then 8..{} random Transport operations with boundary-biased queue indices / sizes / 64-bit addresses / feature words / status values and scripted device read answers (incl. devices that keep QueueReady set for k reads or forever), then drop; 'init' sessions start with begin_init (+ a legacy queue_set); every operation's complete ordered MMIO trace and result is compared with the model; non-trivial = the session performed at least one register write before drop. probe: every region size 0..=0x300 x {} header variants (device ids 0..30 and outliers, versions, mutated magic values); non-trivial = at least one header accepted",
        ctx.tier.pick(32, 64),
        header_variants().len()
    );
    let mut extra = BTreeMap::new();
    extra.insert("x_probe_exhaustive_sizes".into(), "\"0..=0x300 (all)\"".into());
    (all, rule, false, extra)
}

#[cfg(test)]
mod tests {
    use super::*;
    fn a(write: bool, width: u8, offset: usize, value: u64) -> Access {
        Access { seq: 0, write, width, region: "hdr".into(), offset, value }
    }
    #[test]
    fn legal_oracle() {
        assert!(oracle_legal(false, &[a(true, 4, 0x30, 1), a(false, 4, 0x34, 8)]).is_empty());
        assert!(!oracle_legal(false, &[a(false, 4, 0x30, 1)]).is_empty()); // read of write-only
        assert!(!oracle_legal(false, &[a(true, 4, 0x34, 1)]).is_empty()); // write of read-only
        assert!(!oracle_legal(false, &[a(true, 2, 0x30, 1)]).is_empty()); // 16-bit
        assert!(!oracle_legal(false, &[a(true, 4, 0x2c, 1)]).is_empty()); // reserved
        assert!(!oracle_legal(false, &[a(true, 4, 0x40, 1)]).is_empty()); // legacy register on modern
        assert!(!oracle_legal(true, &[a(true, 4, 0x44, 1)]).is_empty()); // modern register on legacy
        assert_eq!(oracle_legal(true, &[a(false, 4, 0xfc, 0)]), vec![LEGACY_GENERATION_FINDING.to_string()]);
    }
    #[test]
    fn sel_oracle() {
        assert!(oracle_sel(Some(3), &[a(true, 4, 0x30, 3), a(true, 4, 0x38, 8)]).is_empty());
        assert!(!oracle_sel(Some(3), &[a(true, 4, 0x38, 8), a(true, 4, 0x30, 3)]).is_empty());
        assert!(!oracle_sel(Some(3), &[a(true, 4, 0x30, 2), a(true, 4, 0x38, 8)]).is_empty());
        assert!(!oracle_sel(None, &[a(true, 4, 0x38, 8)]).is_empty());
    }
    #[test]
    fn op_oracle() {
        let good = [a(true, 4, 0x30, 1), a(true, 4, 0x38, 8), a(true, 4, 0x80, 0x2000), a(true, 4, 0x84, 1), a(true, 4, 0x90, 0x2080), a(true, 4, 0x94, 1), a(true, 4, 0xa0, 0x3000), a(true, 4, 0xa4, 0), a(true, 4, 0x44, 1)];
        let op = Op::QueueSet { q: 1, size: 8, desc: 0x1_0000_2000, drv: 0x1_0000_2080, dev: 0x3000 };
        assert!(oracle_op(false, &op, "ok", &good, None).is_empty());
        let mut early = good.to_vec();
        early.swap(2, 8); // ready before the descriptor address
        assert!(!oracle_op(false, &op, "ok", &early, None).is_empty());
        let mut swapped = good.to_vec();
        swapped[2].value = 1;
        swapped[3].value = 0x2000; // high word in the low register
        assert!(!oracle_op(false, &op, "ok", &swapped, None).is_empty());
        let ack_bad = [a(false, 4, 0x60, 3), a(true, 4, 0x64, 1)];
        assert!(!oracle_op(false, &Op::AckInterrupt, "ok 0x3", &ack_bad, None).is_empty());
        let ack_good = [a(false, 4, 0x60, 3), a(true, 4, 0x64, 3)];
        assert!(oracle_op(false, &Op::AckInterrupt, "ok 0x3", &ack_good, None).is_empty());
    }
}
