//! C12: PCI bus helpers — BAR sizing without side effects, unique configuration addresses,
//! bus enumeration, capability walking.
//!
//! Streams:
//!   * `grid`  exhaustive (kind × prefetch × size exponent × slot × decode bits) BAR probes
//!             (`bar_info` on the slot, then `bars` on the function), boundary/random addresses,
//!             random other slots, the three access paths in rotation;
//!   * `cam`   all 2·256·32·8·64 configuration addresses: `Cam::cam_offset` digests per
//!             (mechanism, bus, device) row, and every address read once through the real `MmioCam`;
//!   * `camx`  invalid tuples (device ≥ 32, function ≥ 8, unaligned register) — panics compared;
//!   * `enum`  random bus populations; `caps` random capability lists (well-formed, malformed, cyclic).

use crate::hal;
use crate::mmio;
use crate::pciref::*;
use crate::proto::Case;
use crate::rng::Rng;
use crate::runner::{Ctx, guarded};
use std::collections::BTreeMap;
use virtio_drivers::transport::pci::bus::{BarInfo, Cam, ConfigurationAccess, DeviceFunction, HeaderType, MemoryBarType, PciError, PciRoot};

pub fn bar_str(b: &Option<BarInfo>) -> String {
    match b {
        None => "none".into(),
        Some(BarInfo::Memory { address_type, prefetchable, address, size }) => {
            format!("mem({:?},{},{:#x},{:#x})", address_type, *prefetchable as u8, address, size)
        }
        Some(BarInfo::IO { address, size }) => format!("io({:#x},{:#x})", address, size),
    }
}

fn df_of(rng: &mut Rng) -> DeviceFunction {
    DeviceFunction { bus: rng.below(256) as u8, device: rng.below(32) as u8, function: rng.below(8) as u8 }
}

/// What the declaration says `bar_info(slot)` must report (slot is not an upper half).
fn expected_bar(d: &BarDecl, slot: usize) -> Result<Option<BarInfo>, PciError> {
    match d.kind {
        Kind::None => Ok(None),
        Kind::Io => Ok(Some(BarInfo::IO { address: d.addr as u32, size: 1u32 << d.exp })),
        Kind::MemRsvd => Err(PciError::InvalidBarType),
        Kind::Mem64 if slot >= 5 => Err(PciError::InvalidBarType),
        k => Ok(Some(BarInfo::Memory {
            address_type: match k {
                Kind::Mem32 => MemoryBarType::Width32,
                Kind::Below1M => MemoryBarType::Below1MiB,
                _ => MemoryBarType::Width64,
            },
            prefetchable: d.pf,
            address: d.addr,
            size: 1u64 << d.exp,
        })),
    }
}

/// One BAR probe case: `bar_info(slot)` then `bars()`, with the independent oracles.
fn bar_case(id: String, decls: [BarDecl; 6], slot: usize, cmd: u16, status: u16, mech: Mech, rng: &mut Rng) -> Case {
    let mut c = Case::new(id);
    hal::reset();
    mmio::reset();
    let df = df_of(rng);
    let mut words = [0u32; 64];
    for w in words.iter_mut() {
        *w = rng.next() as u32;
    }
    let bus = new_bus(10_000);
    bus.borrow_mut().fns.insert((df.bus, df.device, df.function), RefFn::new(&decls, cmd, status, words));
    let before = bus.borrow().fns[&(df.bus, df.device, df.function)].snapshot();
    let mut root = PciRoot::new(access(&bus, mech));
    let fnargs = format!("cmd={:#x} st={:#x} bars={}", cmd & CMD_IMPLEMENTED, status, decls_arg(&decls));
    let high = high_slots(&decls);

    // ---- bar_info(slot) ----
    let r = guarded(|| root.bar_info(df, slot as u8));
    let log = std::mem::take(&mut bus.borrow_mut().log);
    let st = bus.borrow().fns[&(df.bus, df.device, df.function)].state_str();
    let rs = match &r {
        Err(_) => "err panic".to_string(),
        Ok(Ok(b)) => format!("ok {}", bar_str(b)),
        Ok(Err(e)) => format!("err {:?}", e),
    };
    c.step(format!("pci barinfo {} slot={}", fnargs, slot), format!("{} | {} | {}", rs, trace_str(&log), st));
    match &r {
        Err(p) => c.fail(format!("bar_info panicked: {}", p)),
        Ok(got) => {
            if !high[slot] {
                let want = expected_bar(&decls[slot], slot);
                if *got != want {
                    c.fail(format!("bar_info(slot {}) reported {:?}, the function declares {:?} => {:?}", slot, got, decls[slot], want));
                }
            }
        }
    }
    let after = bus.borrow().fns[&(df.bus, df.device, df.function)].snapshot();
    if after != before {
        let w = (0..64).find(|i| after[*i] != before[*i]).unwrap();
        c.fail(format!("bar_info(slot {}) left configuration word {:#x} = {:#x}, was {:#x}", slot, w * 4, after[w], before[w]));
    }

    // ---- bars() ----
    let r = guarded(|| root.bars(df));
    let log = std::mem::take(&mut bus.borrow_mut().log);
    let st = bus.borrow().fns[&(df.bus, df.device, df.function)].state_str();
    let rs = match &r {
        Err(_) => "err panic".to_string(),
        Ok(Ok(b)) => format!("ok {}", b.iter().map(bar_str).collect::<Vec<_>>().join(";")),
        Ok(Err(e)) => format!("err {:?}", e),
    };
    c.step(format!("pci bars {}", fnargs), format!("{} | {} | {}", rs, trace_str(&log), st));
    match &r {
        Err(p) => c.fail(format!("bars panicked: {}", p)),
        Ok(got) => {
            // oracle: the declared BARs, upper-half slots reported as None
            let mut want: Result<[Option<BarInfo>; 6], PciError> = Ok(Default::default());
            for i in 0..6 {
                if high[i] {
                    continue;
                }
                match expected_bar(&decls[i], i) {
                    Ok(b) => {
                        if let Ok(w) = want.as_mut() {
                            w[i] = b;
                        }
                    }
                    Err(e) => {
                        want = Err(e);
                        break;
                    }
                }
            }
            if *got != want {
                c.fail(format!("bars() reported {:?}, the function declares {:?}", got, want));
            }
            if got.is_ok() {
                c.nontrivial = true;
            }
        }
    }
    let after = bus.borrow().fns[&(df.bus, df.device, df.function)].snapshot();
    if after != before {
        let w = (0..64).find(|i| after[*i] != before[*i]).unwrap();
        c.fail(format!("bars() left configuration word {:#x} = {:#x}, was {:#x}", w * 4, after[w], before[w]));
    }
    for v in std::mem::take(&mut bus.borrow_mut().violations) {
        c.fail(v);
    }
    for v in mmio::with(|b| std::mem::take(&mut b.violations)) {
        c.fail(v);
    }
    c.tag(format!("kind={:?}", decls[slot].kind));
    c.tag(format!("slot={}", slot));
    c.tag(format!("decode={}", cmd & 3));
    c.tag(format!("via={}", mech.name()));
    if decls[slot].addr == 0 {
        c.tag("addr=0");
    }
    c
}

fn valid_exps(kind: Kind) -> Vec<u8> {
    match kind {
        Kind::None => vec![0],
        Kind::Io => (2..=31).collect(),
        Kind::Mem64 => (4..=63).collect(),
        _ => (4..=31).collect(),
    }
}

#[derive(Clone, Copy)]
struct GridPoint {
    kind: Kind,
    pf: bool,
    exp: u8,
    slot: usize,
    decode: u16,
}

fn grid_points() -> Vec<GridPoint> {
    let mut g = vec![];
    for kind in [Kind::None, Kind::Mem32, Kind::Below1M, Kind::Mem64, Kind::Io, Kind::MemRsvd] {
        for pf in [false, true] {
            if pf && matches!(kind, Kind::None | Kind::Io) {
                continue;
            }
            for exp in valid_exps(kind) {
                for slot in 0..6 {
                    for decode in 0..4u16 {
                        g.push(GridPoint { kind, pf, exp, slot, decode });
                    }
                }
            }
        }
    }
    g
}

fn grid_case(ctx: &Ctx, i: usize, id: String, p: GridPoint) -> Case {
    let mut rng = ctx.case_rng("c12grid", i);
    let mut decls = [BarDecl::NONE; 6];
    // other slots random; the slot before the probed one must not make it an upper half
    let mut s = 0;
    while s < 6 {
        if s == p.slot {
            decls[s] = BarDecl { kind: p.kind, pf: p.pf, exp: p.exp, addr: random_addr(&mut rng, p.kind, p.exp) };
            s += if p.kind == Kind::Mem64 { 2 } else { 1 };
            continue;
        }
        let mut k = random_kind(&mut rng);
        if k == Kind::Mem64 && s + 1 == p.slot {
            k = Kind::Mem32;
        }
        decls[s] = random_decl(&mut rng, k);
        s += if k == Kind::Mem64 { 2 } else { 1 };
    }
    let cmd = (rng.next() as u16 & CMD_IMPLEMENTED & !3) | p.decode;
    let status = rng.next() as u16;
    bar_case(id, decls, p.slot, cmd, status, Mech::of(i), &mut rng)
}

/// digest used for the CAM rows (same function as `PciBus.digest` in the model)
pub fn digest32(vals: impl Iterator<Item = u32>) -> u64 {
    let mut h: u64 = 0xcbf29ce484222325;
    for v in vals {
        h = (h ^ v as u64).wrapping_mul(0x100000001b3);
    }
    h
}

/// Reads back the window offset it is accessed at (so the real `MmioCam` can be checked address by address).
struct EchoDev;
impl mmio::MmioDevice for EchoDev {
    fn read(&mut self, offset: usize, _width: u8) -> u64 {
        offset as u64
    }
    fn write(&mut self, _offset: usize, _width: u8, _value: u64) {}
}

/// One (mechanism, bus) block: 32 device rows × 8 functions × 64 registers.
fn cam_case(id: String, ecam: bool, busno: u8) -> Case {
    let mut c = Case::new(id);
    mmio::reset();
    let cam = if ecam { Cam::Ecam } else { Cam::MmioCam };
    mmio::register(CAM_BASE, cam.size() as usize, "cam", Box::new(EchoDev));
    // SAFETY: fake address served by the custom safe-mmio backend.
    let mc = unsafe { virtio_drivers::transport::pci::bus::MmioCam::new(CAM_BASE as *mut u8, cam) };
    for dev in 0..32u8 {
        let mut offs = Vec::with_capacity(512);
        for function in 0..8u8 {
            for reg in 0..64u32 {
                let df = DeviceFunction { bus: busno, device: dev, function };
                let off = cam.cam_offset(df, (reg * 4) as u8);
                // oracle (specification's address layout, written independently of the code)
                let want = if ecam {
                    (busno as u32) << 20 | (dev as u32) << 15 | (function as u32) << 12 | reg * 4
                } else {
                    (busno as u32) << 16 | (dev as u32) << 11 | (function as u32) << 8 | reg * 4
                };
                if off != want {
                    c.fail(format!("cam_offset({:?},{:?},{:#x}) = {:#x}, specification says {:#x}", cam, df, reg * 4, off, want));
                }
                if off >= cam.size() || off % 4 != 0 {
                    c.fail(format!("cam_offset({:?},{:?},{:#x}) = {:#x} outside the window or unaligned", cam, df, reg * 4, off));
                }
                // the real MmioCam must touch exactly that word, with one 32-bit read
                let got = mc.read_word(df, (reg * 4) as u8);
                if got != want {
                    c.fail(format!("MmioCam::read_word({:?},{:#x}) accessed window offset {:#x}, expected {:#x}", df, reg * 4, got, want));
                }
                offs.push(off);
            }
        }
        let tr = mmio::take_trace();
        if tr.len() != 512 || tr.iter().any(|a| a.write || a.width != 4) {
            c.fail(format!("MmioCam row bus {} device {}: {} accesses, expected 512 32-bit reads", busno, dev, tr.len()));
        }
        c.step(format!("pci camrow ecam={} bus={} dev={}", ecam as u8, busno, dev), format!("{:#x}", digest32(offs.into_iter())));
    }
    for v in mmio::with(|b| std::mem::take(&mut b.violations)) {
        c.fail(v);
    }
    c.nontrivial = true;
    c.tag(if ecam { "cam=ecam" } else { "cam=mmio" });
    c
}

/// Global injectivity oracle over all valid tuples of one mechanism (bitmap over the window).
fn cam_injective_case(id: String, ecam: bool) -> Case {
    let mut c = Case::new(id);
    let cam = if ecam { Cam::Ecam } else { Cam::MmioCam };
    let mut seen = vec![0u64; cam.size() as usize / 4 / 64 + 1];
    let mut n = 0u64;
    'outer: for busno in 0..=255u8 {
        for dev in 0..32u8 {
            for function in 0..8u8 {
                for reg in 0..64u32 {
                    let off = cam.cam_offset(DeviceFunction { bus: busno, device: dev, function }, (reg * 4) as u8);
                    if off >= cam.size() || off % 4 != 0 {
                        c.fail(format!("offset {:#x} outside window/unaligned", off));
                        break 'outer;
                    }
                    let w = (off / 4) as usize;
                    if seen[w / 64] >> (w % 64) & 1 != 0 {
                        c.fail(format!("{:?}: offset {:#x} produced by two distinct (bus,device,function,register) tuples (second: {}:{}.{} reg {:#x})", cam, off, busno, dev, function, reg * 4));
                        break 'outer;
                    }
                    seen[w / 64] |= 1 << (w % 64);
                    n += 1;
                }
            }
        }
    }
    c.step(format!("pci cam ecam={} bus=255 dev=31 fn=7 reg=252", ecam as u8), format!("{:#x}", cam.cam_offset(DeviceFunction { bus: 255, device: 31, function: 7 }, 252)));
    c.tag(format!("cam-injective-tuples={}", n));
    c.nontrivial = true;
    c
}

/// Invalid tuples: the code's asserts (panic) against the model's `none`.
fn camx_case(id: String, rng: &mut Rng, exhaustive_regs: bool) -> Case {
    let mut c = Case::new(id);
    let mut probe = |c: &mut Case, ecam: bool, b: u8, d: u8, f: u8, reg: u8| {
        let cam = if ecam { Cam::Ecam } else { Cam::MmioCam };
        let r = guarded(|| cam.cam_offset(DeviceFunction { bus: b, device: d, function: f }, reg));
        let out = match r {
            Ok(v) => format!("{:#x}", v),
            Err(_) => "panic".into(),
        };
        // oracle: a returned offset is always inside the window and aligned
        if let Ok(v) = r {
            if v >= cam.size() || v % 4 != 0 {
                c.fail(format!("cam_offset returned {:#x} (outside window or unaligned)", v));
            }
            if d >= 32 || f >= 8 {
                c.fail(format!("cam_offset accepted device {} function {}", d, f));
            }
        }
        c.step(format!("pci cam ecam={} bus={} dev={} fn={} reg={}", ecam as u8, b, d, f, reg), out);
    };
    if exhaustive_regs {
        for ecam in [false, true] {
            for reg in 0..=255u8 {
                probe(&mut c, ecam, 3, 4, 5, reg);
            }
            for d in 0..=255u8 {
                probe(&mut c, ecam, 7, d, 0, 0x40);
                probe(&mut c, ecam, 7, 1, d, 0x40);
            }
        }
        c.tag("camx=grid");
    } else {
        for _ in 0..400 {
            probe(&mut c, rng.chance(1, 2), rng.next() as u8, rng.next() as u8, rng.next() as u8, rng.next() as u8);
        }
        c.tag("camx=random");
    }
    c.nontrivial = true;
    c
}

fn header_code(h: HeaderType) -> u8 {
    match h {
        HeaderType::Standard => 0,
        HeaderType::PciPciBridge => 1,
        HeaderType::PciCardbusBridge => 2,
        HeaderType::Unrecognised(v) => v,
    }
}

fn enum_case(id: String, rng: &mut Rng, mech: Mech) -> Case {
    let mut c = Case::new(id);
    hal::reset();
    mmio::reset();
    let busno = rng.next() as u8;
    let bus = new_bus(100_000);
    let npop = match rng.below(6) {
        0 => 0,
        1 => 256,
        2 => 1,
        _ => rng.below(24) as usize,
    };
    let mut slots: Vec<u8> = (0..=255u8).collect();
    rng.shuffle(&mut slots);
    let mut present: Vec<u8> = slots[..npop].to_vec();
    present.sort();
    let mut pop = vec![];
    let mut want = vec![];
    for i in &present {
        let (d, f) = (i / 8, i % 8);
        let mut words = [0u32; 64];
        for w in words.iter_mut() {
            *w = rng.next() as u32;
        }
        // vendor 0xffff is not a valid vendor ID (it is what an absent function reads as)
        let vendor = loop {
            let v = rng.u16_biased();
            if v != 0xffff {
                break v;
            }
        };
        let device = rng.u16_biased();
        words[0] = (device as u32) << 16 | vendor as u32;
        if rng.chance(1, 2) {
            words[3] = (words[3] & 0xff00_ffff) | (*rng.pick(&[0u32, 1, 2, 0x80, 0x81, 0x7f, 5])) << 16;
        }
        pop.push(format!("{},{:#x},{:#x},{:#x}", i, words[0], words[2], words[3]));
        want.push(format!(
            "{}.{}:{:#x}:{:#x}:{:#x}.{:#x}.{:#x}.{:#x}:h{}",
            d,
            f,
            vendor,
            device,
            words[2] >> 24,
            (words[2] >> 16) & 0xff,
            (words[2] >> 8) & 0xff,
            words[2] & 0xff,
            (words[3] >> 16) & 0x7f
        ));
        bus.borrow_mut().fns.insert((busno, d, f), RefFn::new(&[BarDecl::NONE; 6], 0, 0, words));
    }
    // functions on other buses must not show up
    for _ in 0..4 {
        let b = rng.next() as u8;
        if b != busno {
            let mut words = [0x1234_5678u32; 64];
            words[0] = 0x1001_1af4;
            bus.borrow_mut().fns.insert((b, rng.below(32) as u8, rng.below(8) as u8), RefFn::new(&[BarDecl::NONE; 6], 0, 0, words));
        }
    }
    let root = PciRoot::new(access(&bus, mech));
    let r = guarded(|| root.enumerate_bus(busno).collect::<Vec<_>>());
    let reads = bus.borrow().log.len();
    let out = match &r {
        Err(_) => "panic".to_string(),
        Ok(l) => {
            let items: Vec<String> = l
                .iter()
                .map(|(df, i)| {
                    if df.bus != busno {
                        c.fail(format!("enumeration of bus {} yielded {}", busno, df));
                    }
                    format!(
                        "{}.{}:{:#x}:{:#x}:{:#x}.{:#x}.{:#x}.{:#x}:h{}",
                        df.device,
                        df.function,
                        i.vendor_id,
                        i.device_id,
                        i.class,
                        i.subclass,
                        i.prog_if,
                        i.revision,
                        header_code(i.header_type)
                    )
                })
                .collect();
            if items != want {
                c.fail(format!("enumeration yielded [{}], the bus is populated with [{}]", items.join(" "), want.join(" ")));
            }
            format!("{} {}", reads, if items.is_empty() { "-".to_string() } else { items.join(" ") })
        }
    };
    if let Err(p) = &r {
        c.fail(format!("enumerate_bus panicked: {}", p));
    }
    if bus.borrow().log.iter().any(|a| a.write) {
        c.fail("enumeration wrote to configuration space");
    }
    c.step(format!("pci enum pop={}", if pop.is_empty() { "-".to_string() } else { pop.join(",") }), out);
    for v in mmio::with(|b| std::mem::take(&mut b.violations)) {
        c.fail(v);
    }
    c.nontrivial = npop > 0;
    c.tag(format!("enum-pop={}", if npop == 0 { "0" } else if npop == 1 { "1" } else if npop == 256 { "256" } else { "2..23" }));
    c.tag(format!("via={}", mech.name()));
    c
}

/// A capability list laid out in configuration space. `kind`: 0 well-formed, 1 cyclic, 2 bad next
/// pointer (below 0x40 or unaligned), 3 status bit clear, 4 pointer below 0x40.
pub struct CapLayout {
    pub words: [u32; 64],
    pub status: u16,
    /// (offset, id, private header) in list order — for well-formed lists exactly what must be yielded
    pub chain: Vec<(u8, u8, u16)>,
    pub kind: u8,
}

pub fn random_cap_layout(rng: &mut Rng, kind: u8) -> CapLayout {
    let mut words = [0u32; 64];
    for w in words.iter_mut() {
        *w = rng.next() as u32;
    }
    let n = match rng.below(5) {
        0 => 0,
        1 => 48,
        2 => 1,
        _ => rng.below(12) as usize,
    };
    let mut offs: Vec<u8> = (0..48u32).map(|i| (0x40 + 4 * i) as u8).collect();
    rng.shuffle(&mut offs);
    offs.truncate(n);
    let mut chain = vec![];
    for (i, off) in offs.iter().enumerate() {
        let id = if rng.chance(1, 3) { 0x09 } else { rng.next() as u8 };
        let privh = rng.u16_biased();
        let next = if i + 1 < offs.len() { offs[i + 1] } else { 0 };
        words[*off as usize / 4] = id as u32 | (next as u32) << 8 | (privh as u32) << 16;
        chain.push((*off, id, privh));
    }
    let mut status = rng.next() as u16 | 0x10;
    words[0x34 / 4] = (rng.next() as u32 & 0xffff_ff00) | if n > 0 { offs[0] as u32 | (rng.below(4) as u32) } else { 0 };
    match kind {
        1 if n > 0 => {
            // the last capability points back into the list
            let last = *offs.last().unwrap() as usize / 4;
            let back = offs[rng.below(n as u64) as usize];
            words[last] = (words[last] & 0xffff_00ff) | (back as u32) << 8;
        }
        2 if n > 0 => {
            let at = offs[rng.below(n as u64) as usize] as usize / 4;
            let bad = if rng.chance(1, 2) { (rng.below(15) as u32 + 1) * 4 } else { rng.next() as u32 & 0xff | 1 };
            words[at] = (words[at] & 0xffff_00ff) | (bad & 0xff) << 8;
        }
        3 => status &= !0x10,
        4 => words[0x34 / 4] = rng.below(0x40) as u32,
        _ => {}
    }
    if n == 0 && kind == 0 {
        // an empty list: either no capabilities bit, or … the bit set with a null pointer is not well-formed; use the former
        status &= !0x10;
    }
    CapLayout { words, status, chain, kind: if n == 0 && (kind == 1 || kind == 2) { 0 } else { kind } }
}

pub fn sparse_words(words: &[u32; 64]) -> String {
    (0..64).map(|i| format!("{:#x},{:#x}", i * 4, words[i])).collect::<Vec<_>>().join(",")
}

fn caps_case(id: String, rng: &mut Rng, mech: Mech, kind: u8) -> Case {
    let mut c = Case::new(id);
    hal::reset();
    mmio::reset();
    let mut lay = random_cap_layout(rng, kind);
    if lay.chain.is_empty() && lay.kind != 3 && lay.kind != 4 {
        lay.status &= !0x10;
    }
    let df = df_of(rng);
    let bus = new_bus(5_000);
    bus.borrow_mut().fns.insert((df.bus, df.device, df.function), RefFn::new(&[BarDecl::NONE; 6], 0, lay.status, lay.words));
    let root = PciRoot::new(access(&bus, mech));
    let r = guarded(|| root.capabilities(df).collect::<Vec<_>>());
    let log = std::mem::take(&mut bus.borrow_mut().log);
    let out = match &r {
        Err(p) => {
            if p.contains(CFG_BUDGET_PANIC) || p.contains(mmio::BUDGET_PANIC) {
                c.fail("capability walk did not terminate (configuration access budget exhausted)");
            } else {
                c.fail(format!("capability walk panicked: {}", p));
            }
            "panic".to_string()
        }
        Ok(l) => {
            let items: Vec<String> = l.iter().map(|ci| format!("{:#x}:{:#x}:{:#x}", ci.offset, ci.id, ci.private_header)).collect();
            if lay.kind == 0 {
                let want: Vec<String> = lay.chain.iter().map(|(o, i, p)| format!("{:#x}:{:#x}:{:#x}", o, i, p)).collect();
                if items != want {
                    c.fail(format!("well-formed list [{}] walked as [{}]", want.join(" "), items.join(" ")));
                }
                c.nontrivial = !l.is_empty();
            }
            if l.len() > 48 {
                c.fail(format!("{} capabilities yielded; 192 bytes hold at most 48", l.len()));
            }
            format!("{} | {}", if items.is_empty() { "-".to_string() } else { items.join(" ") }, trace_str(&log))
        }
    };
    if log.iter().any(|a| a.write) {
        c.fail("capability walk wrote to configuration space");
    }
    let mut w = lay.words;
    w[1] = 0;
    c.step(format!("pci caps cmd=0 st={:#x} bars=- w={}", lay.status, sparse_words(&w)), out);
    for v in mmio::with(|b| std::mem::take(&mut b.violations)) {
        c.fail(v);
    }
    c.tag(format!("caps-kind={}", ["well-formed", "cyclic", "bad-next", "no-status-bit", "low-pointer"][lay.kind as usize]));
    c.tag(format!("caps-len={}", match lay.chain.len() { 0 => "0", 1 => "1", 48 => "48", _ => "2..47" }));
    c
}

pub fn run(ctx: &Ctx) -> (Vec<Case>, String, bool, BTreeMap<String, String>) {
    let mut all = vec![];
    // exhaustive BAR grid
    let grid = grid_points();
    let reps = ctx.tier.pick(1, 4);
    let n = grid.len() * reps;
    all.extend(crate::runner::par_cases(ctx, "C12", "grid", n, |i, id| grid_case(ctx, i, id, grid[i % grid.len()])));
    // random BAR tables (incl. probing upper halves and 64-bit BARs in slot 5)
    let nr = ctx.tier.pick(2000, 30000);
    all.extend(crate::runner::par_cases(ctx, "C12", "bars", nr, |i, id| {
        let mut rng = ctx.case_rng("c12bars", i);
        let mut decls = [BarDecl::NONE; 6];
        let mut s = 0;
        while s < 6 {
            let k = random_kind(&mut rng);
            decls[s] = random_decl(&mut rng, k);
            s += if k == Kind::Mem64 { 2 } else { 1 };
        }
        let slot = rng.below(6) as usize;
        let cmd = rng.next() as u16;
        let status = rng.next() as u16;
        bar_case(id, decls, slot, cmd, status, Mech::of(i), &mut rng)
    }));
    // all configuration addresses
    all.extend(crate::runner::par_cases(ctx, "C12", "cam", 512, |i, id| cam_case(id, i >= 256, (i % 256) as u8)));
    all.extend(crate::runner::par_cases(ctx, "C12", "caminj", 2, |i, id| cam_injective_case(id, i == 1)));
    all.extend(crate::runner::par_cases(ctx, "C12", "camx", ctx.tier.pick(4, 40), |i, id| {
        let mut rng = ctx.case_rng("c12camx", i);
        camx_case(id, &mut rng, i == 0)
    }));
    all.extend(crate::runner::par_cases(ctx, "C12", "enum", ctx.tier.pick(300, 4000), |i, id| {
        let mut rng = ctx.case_rng("c12enum", i);
        enum_case(id, &mut rng, Mech::of(i))
    }));
    all.extend(crate::runner::par_cases(ctx, "C12", "caps", ctx.tier.pick(1500, 20000), |i, id| {
        let mut rng = ctx.case_rng("c12caps", i);
        let kind = (i % 8) as u8;
        caps_case(id, &mut rng, Mech::of(i / 8), if kind >= 5 { 0 } else { kind })
    }));
    let rule = "streams: grid = exhaustive (BAR kind x prefetchable x every valid size exponent x slot 0..5 x the four decode-bit values), \
each with boundary/random assigned addresses, random other BARs, random remaining command/status bits, access path rotating over \
{ConfigurationAccess reference function, real MmioCam over CAM, over ECAM}; each case = bar_info(slot) then bars(); bars = random BAR tables and random slot \
(incl. upper halves, 64-bit BAR in slot 5, reserved memory type); cam = all 2x256x32x8x64 configuration addresses (digest per (mechanism,bus,device) row vs the model, \
each address also read through the real MmioCam against an echo device); caminj = bitmap injectivity over all tuples; camx = invalid tuples (asserts); \
enum = random bus populations; caps = capability lists (well-formed 4/8, cyclic, bad next pointer, capabilities bit clear, pointer below 0x40). \
non-trivial = bars() succeeded / a populated bus was enumerated / a non-empty well-formed list was walked / a CAM block was swept"
        .to_string();
    let mut extra = BTreeMap::new();
    extra.insert(
        "x_exhaustive_subspaces".into(),
        "\"BAR (kind,prefetch,exponent,slot,decode bits) grid; all 2*256*32*8*64 CAM/ECAM addresses; register offsets 0..255 and device/function 0..255 for the cam_offset asserts\"".into(),
    );
    (all, rule, false, extra)
}
