//! Transcript of cases (operation lines + what the implementation answered), comparison with the
//! Lean model driver, result file.

use crate::rng::fnv64;
use std::collections::{BTreeMap, HashSet};
use std::io::Write;
use std::path::{Path, PathBuf};
use std::process::{Command, Stdio};

#[derive(Clone, Debug, Default)]
pub struct Case {
    /// unique, replayable identifier (`<prop>-<tier>-<seed>-<index>` or a corpus name)
    pub id: String,
    /// (operation line sent to the model, canonical output of the implementation)
    pub steps: Vec<(String, String)>,
    /// failures of independent oracles on the implementation (spec predicates, ledgers, reference devices)
    pub oracle_failures: Vec<String>,
    /// by the domain's rule: reached at least one non-error state change
    pub nontrivial: bool,
    /// free-form tags counted into the input distribution
    pub tags: Vec<String>,
}

impl Case {
    pub fn new(id: impl Into<String>) -> Self {
        Case { id: id.into(), ..Default::default() }
    }
    pub fn step(&mut self, op: impl Into<String>, out: impl Into<String>) {
        let op = op.into();
        debug_assert!(!op.contains('\n'));
        self.steps.push((op, out.into().replace('\n', "\\n")));
        // the driver call recorded by this step has returned: open notification obligations are lost
        for f in crate::wake::take_lost() {
            self.oracle_failures.push(f);
        }
    }
    pub fn fail(&mut self, what: impl Into<String>) {
        self.oracle_failures.push(what.into());
    }
    pub fn tag(&mut self, t: impl Into<String>) {
        self.tags.push(t.into());
    }
    pub fn digest(&self) -> u64 {
        let mut s = String::new();
        for (op, out) in &self.steps {
            s.push_str(op);
            s.push('\x01');
            s.push_str(out);
            s.push('\n');
        }
        fnv64(s.as_bytes())
    }
}

#[derive(Clone, Debug)]
pub struct Disagreement {
    pub case_id: String,
    pub step: usize,
    pub op: String,
    pub impl_out: String,
    pub model_out: String,
}

pub struct RunResult {
    pub prop: String,
    pub tier: String,
    pub seed: u64,
    pub rule: String,
    pub exhaustive: bool,
    pub cases: Vec<Case>,
    pub disagreements: Vec<Disagreement>,
    pub infra_errors: Vec<String>,
    pub extra: BTreeMap<String, String>, // raw JSON values
}

pub fn json_str(s: &str) -> String {
    let mut o = String::with_capacity(s.len() + 2);
    o.push('"');
    for c in s.chars() {
        match c {
            '"' => o.push_str("\\\""),
            '\\' => o.push_str("\\\\"),
            '\n' => o.push_str("\\n"),
            '\r' => o.push_str("\\r"),
            '\t' => o.push_str("\\t"),
            c if (c as u32) < 0x20 => o.push_str(&format!("\\u{:04x}", c as u32)),
            c => o.push(c),
        }
    }
    o.push('"');
    o
}

/// Pipes all operation lines of all cases through the Lean driver and compares line by line.
/// Cases are split into chunks that run through separate driver processes in parallel.
/// Canonical form for comparison: the space-separated tokens between a `{` token and the matching
/// `}` token form an unordered group (the property does not fix their order) and are sorted.  Both
/// sides print the braces at the same places; everything else is compared verbatim.
pub fn canon_groups(s: &str) -> String {
    if !s.contains('{') {
        return s.to_string();
    }
    let mut out: Vec<String> = vec![];
    let mut group: Option<Vec<String>> = None;
    for t in s.split(' ') {
        match (t, group.as_mut()) {
            ("{", None) => group = Some(vec![]),
            ("}", Some(_)) => {
                let mut g = group.take().unwrap();
                g.sort();
                out.push(format!("{{ {} }}", g.join(" ")));
            }
            (_, Some(g)) => g.push(t.to_string()),
            (_, None) => out.push(t.to_string()),
        }
    }
    if let Some(g) = group {
        out.push("{".into());
        out.extend(g);
    }
    out.join(" ")
}

pub fn compare_with_model(driver: &Path, cases: &[Case], workdir: &Path, tag: &str) -> Result<Vec<Disagreement>, String> {
    std::fs::create_dir_all(workdir).map_err(|e| e.to_string())?;
    let workers = std::thread::available_parallelism().map(|n| n.get()).unwrap_or(4).min(cases.len().max(1));
    // balance by a cost estimate (soak ops are expensive)
    let cost = |c: &Case| -> u64 {
        c.steps.iter().map(|(op, _)| if let Some(p) = op.find(" cycle k=") { 1 + op[p + 9..].trim().parse::<u64>().unwrap_or(0) / 8 } else { 1 }).sum::<u64>() + 1
    };
    let mut order: Vec<usize> = (0..cases.len()).collect();
    order.sort_by_key(|i| std::cmp::Reverse(cost(&cases[*i])));
    let mut chunks: Vec<(u64, Vec<usize>)> = vec![(0, vec![]); workers];
    for i in order {
        let m = chunks.iter_mut().min_by_key(|(c, _)| *c).unwrap();
        m.0 += cost(&cases[i]);
        m.1.push(i);
    }
    let results: Vec<Result<Vec<Disagreement>, String>> = std::thread::scope(|s| {
        let hs: Vec<_> = chunks
            .iter()
            .enumerate()
            .map(|(w, (_, idxs))| {
                let idxs = idxs.clone();
                s.spawn(move || {
                    let sel: Vec<&Case> = idxs.iter().map(|i| &cases[*i]).collect();
                    compare_chunk(driver, &sel, workdir, &format!("{}-{}", tag, w))
                })
            })
            .collect();
        hs.into_iter().map(|h| h.join().unwrap_or_else(|_| Err("driver thread panicked".into()))).collect()
    });
    let mut dis = vec![];
    for r in results {
        dis.extend(r?);
    }
    // report in case order
    let pos: std::collections::HashMap<&str, usize> = cases.iter().enumerate().map(|(i, c)| (c.id.as_str(), i)).collect();
    dis.sort_by_key(|d| pos.get(d.case_id.as_str()).cloned().unwrap_or(0));
    Ok(dis)
}

fn compare_chunk(driver: &Path, cases: &[&Case], workdir: &Path, tag: &str) -> Result<Vec<Disagreement>, String> {
    if cases.is_empty() {
        return Ok(vec![]);
    }
    let ops_path = workdir.join(format!("{}.ops", tag));
    {
        let mut f = std::io::BufWriter::new(std::fs::File::create(&ops_path).map_err(|e| e.to_string())?);
        for c in cases {
            writeln!(f, "case {}", c.id).unwrap();
            for (op, _) in &c.steps {
                writeln!(f, "{}", op).unwrap();
            }
        }
    }
    let input = std::fs::File::open(&ops_path).map_err(|e| e.to_string())?;
    let out = Command::new(driver)
        .stdin(Stdio::from(input))
        .stdout(Stdio::piped())
        .stderr(Stdio::piped())
        .output()
        .map_err(|e| format!("cannot run model driver {}: {}", driver.display(), e))?;
    if !out.status.success() {
        return Err(format!("model driver failed: {}", String::from_utf8_lossy(&out.stderr)));
    }
    let text = String::from_utf8_lossy(&out.stdout);
    let mut lines = text.lines();
    let mut dis = vec![];
    for c in cases {
        match lines.next() {
            Some("case") => {}
            other => return Err(format!("model driver out of sync at case {}: {:?}", c.id, other)),
        }
        let mut diverged = false;
        for (i, (op, impl_out)) in c.steps.iter().enumerate() {
            let m = lines.next().ok_or_else(|| format!("model driver output truncated at case {}", c.id))?;
            if !diverged && m != impl_out && canon_groups(m) != canon_groups(impl_out) {
                diverged = true; // report only the first divergence of a case
                dis.push(Disagreement {
                    case_id: c.id.clone(),
                    step: i,
                    op: op.clone(),
                    impl_out: impl_out.clone(),
                    model_out: m.to_string(),
                });
            }
        }
    }
    let _ = std::fs::remove_file(&ops_path);
    Ok(dis)
}

pub fn write_replay(dir: &Path, prop: &str, c: &Case, why: &str, model_out: Option<(usize, &str)>) -> PathBuf {
    let _ = std::fs::create_dir_all(dir);
    let safe: String = c.id.chars().map(|ch| if ch.is_ascii_alphanumeric() || ch == '-' || ch == '_' { ch } else { '_' }).collect();
    let path = dir.join(format!("{}-{}.ops", prop, safe));
    let mut s = String::new();
    s.push_str(&format!("# property {}\n# {}\n# replay: harness/target/debug/vh run {} --only {}\n", prop, why.replace('\n', " "), prop, c.id));
    s.push_str(&format!("case {}\n", c.id));
    for (i, (op, out)) in c.steps.iter().enumerate() {
        s.push_str(&format!("{}\n#   impl : {}\n", op, out));
        if let Some((j, m)) = model_out {
            if i == j {
                s.push_str(&format!("#   model: {}\n", m));
            }
        }
    }
    for f in &c.oracle_failures {
        s.push_str(&format!("# oracle: {}\n", f));
    }
    let _ = std::fs::write(&path, s);
    path
}

impl RunResult {
    pub fn to_json(&self, replay_dir: &Path) -> String {
        let evaluations = self.cases.len();
        let mut seen = HashSet::new();
        let mut tags: BTreeMap<String, usize> = BTreeMap::new();
        let mut steps_total = 0usize;
        for c in &self.cases {
            if c.nontrivial {
                seen.insert(c.digest());
            }
            steps_total += c.steps.len();
            for t in &c.tags {
                *tags.entry(t.clone()).or_default() += 1;
            }
        }
        let mut o = String::new();
        o.push_str("{\n");
        o.push_str(&format!("  \"property\": {},\n", json_str(&self.prop)));
        o.push_str(&format!("  \"tier\": {},\n", json_str(&self.tier)));
        o.push_str(&format!("  \"seed\": {},\n", self.seed));
        o.push_str(&format!("  \"evaluations\": {},\n", evaluations));
        o.push_str(&format!("  \"steps_compared\": {},\n", steps_total));
        o.push_str(&format!("  \"distinct_nontrivial\": {},\n", seen.len()));
        o.push_str(&format!("  \"exhaustive\": {},\n", self.exhaustive));
        o.push_str(&format!("  \"rule\": {},\n", json_str(&self.rule)));
        // samples: first, middle, last case
        let mut samples = vec![];
        if !self.cases.is_empty() {
            for idx in [0, self.cases.len() / 2, self.cases.len() - 1] {
                let c = &self.cases[idx];
                let steps: Vec<String> = c.steps.iter().take(12).map(|(a, b)| format!("{} => {}", a, b)).collect();
                samples.push(format!(
                    "{{\"case\": {}, \"steps\": {}, \"first_steps\": [{}]}}",
                    json_str(&c.id),
                    c.steps.len(),
                    steps.iter().map(|s| json_str(&truncate(s, 400))).collect::<Vec<_>>().join(", ")
                ));
            }
        }
        o.push_str(&format!("  \"samples\": [{}],\n", samples.join(",\n    ")));
        let dist: Vec<String> = tags.iter().map(|(k, v)| format!("{}: {}", json_str(k), v)).collect();
        o.push_str(&format!("  \"distribution\": {{{}}},\n", dist.join(", ")));
        // oracle failures
        let mut of = vec![];
        for c in &self.cases {
            if !c.oracle_failures.is_empty() {
                let p = write_replay(replay_dir, &self.prop, c, &c.oracle_failures[0], None);
                of.push(format!(
                    "{{\"case\": {}, \"what\": {}, \"all\": [{}], \"replay\": {}}}",
                    json_str(&c.id),
                    json_str(&c.oracle_failures[0]),
                    c.oracle_failures.iter().take(8).map(|s| json_str(s)).collect::<Vec<_>>().join(", "),
                    json_str(&p.display().to_string())
                ));
            }
        }
        o.push_str(&format!("  \"oracle_failures\": [{}],\n", of.join(",\n    ")));
        let mut md = vec![];
        for d in &self.disagreements {
            let c = self.cases.iter().find(|c| c.id == d.case_id).unwrap();
            let p = write_replay(
                replay_dir,
                &format!("{}-model", self.prop),
                c,
                &format!("model/implementation disagreement at step {}", d.step),
                Some((d.step, &d.model_out)),
            );
            md.push(format!(
                "{{\"case\": {}, \"step\": {}, \"op\": {}, \"impl\": {}, \"model\": {}, \"replay\": {}}}",
                json_str(&d.case_id),
                d.step,
                json_str(&truncate(&d.op, 600)),
                json_str(&truncate(&d.impl_out, 600)),
                json_str(&truncate(&d.model_out, 600)),
                json_str(&p.display().to_string())
            ));
        }
        o.push_str(&format!("  \"model_disagreements\": [{}],\n", md.join(",\n    ")));
        for (k, v) in &self.extra {
            o.push_str(&format!("  {}: {},\n", json_str(k), v));
        }
        o.push_str(&format!(
            "  \"infra_errors\": [{}]\n",
            self.infra_errors.iter().map(|s| json_str(s)).collect::<Vec<_>>().join(", ")
        ));
        o.push_str("}\n");
        o
    }
}

pub fn truncate(s: &str, n: usize) -> String {
    if s.len() <= n { s.to_string() } else { format!("{}…(+{} bytes)", &s[..s.char_indices().take_while(|(i, _)| *i < n).last().map(|(i, c)| i + c.len_utf8()).unwrap_or(0)], s.len() - n) }
}
