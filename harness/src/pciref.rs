//! Reference PCI bus for C11/C12, written from the PCI specification (register-level, bit masks):
//! functions with a command register (implemented bits 0x077f), write-one-to-clear status bits,
//! six BAR registers with read-only flag bits and writable address bits above the size exponent,
//! and 256 bytes of otherwise read-only configuration space. Absent functions read all-ones.
//!
//! Every configuration access is logged in order (with the harness' logical clock, so it can be
//! merged with HAL events and MMIO accesses) and checked by two property oracles:
//!   * a BAR register is written while I/O or memory decoding is enabled;
//!   * a register other than command/status or a BAR is written.
//! The bus is reachable through a `ConfigurationAccess` implementation (`RefAccess`) and through
//! the real `MmioCam` over the custom safe-mmio backend (`CamDev`, CAM and ECAM address decoding
//! written from the specification's bit layout).

use crate::mmio::{self, MmioDevice};
use std::cell::RefCell;
use std::collections::BTreeMap;
use std::rc::Rc;
use virtio_drivers::transport::pci::bus::{Cam, ConfigurationAccess, DeviceFunction, MmioCam};

#[derive(Clone, Copy, PartialEq, Eq, Debug)]
pub enum Kind {
    None = 0,
    Mem32 = 1,
    Below1M = 2,
    Mem64 = 3,
    Io = 4,
    MemRsvd = 5,
}

#[derive(Clone, Copy, Debug)]
pub struct BarDecl {
    pub kind: Kind,
    pub pf: bool,
    pub exp: u8,
    pub addr: u64,
}

impl BarDecl {
    pub const NONE: BarDecl = BarDecl { kind: Kind::None, pf: false, exp: 0, addr: 0 };
    pub fn flags(&self) -> u32 {
        let pf = if self.pf { 8 } else { 0 };
        match self.kind {
            Kind::None => 0,
            Kind::Mem32 => pf,
            Kind::Below1M => 2 | pf,
            Kind::Mem64 => 4 | pf,
            Kind::MemRsvd => 6 | pf,
            Kind::Io => 1,
        }
    }
    pub fn is_memory(&self) -> bool {
        matches!(self.kind, Kind::Mem32 | Kind::Below1M | Kind::Mem64)
    }
    pub fn size(&self) -> u64 {
        1u64 << self.exp
    }
}

/// Which slots hold the upper half of a 64-bit BAR that starts one slot earlier.
pub fn high_slots(decls: &[BarDecl; 6]) -> [bool; 6] {
    let mut h = [false; 6];
    for i in 1..6 {
        h[i] = !h[i - 1] && decls[i - 1].kind == Kind::Mem64;
    }
    h
}

pub fn decls_arg(decls: &[BarDecl; 6]) -> String {
    decls.iter().map(|d| format!("{},{},{},{:#x}", d.kind as u8, d.pf as u8, d.exp, d.addr)).collect::<Vec<_>>().join(",")
}

#[derive(Clone)]
pub struct RefFn {
    pub cmd: u16,
    pub status: u16,
    pub bar_val: [u32; 6],
    pub bar_wmask: [u32; 6],
    pub bar_ro: [u32; 6],
    pub words: [u32; 64],
}

pub const CMD_IMPLEMENTED: u16 = 0x077f;
pub const STATUS_W1C: u16 = 0xf900;

fn low_mask(exp: u8) -> u32 {
    if exp >= 32 { 0 } else { !((1u32 << exp) - 1) }
}

impl RefFn {
    pub fn new(decls: &[BarDecl; 6], cmd: u16, status: u16, words: [u32; 64]) -> RefFn {
        let mut f = RefFn { cmd: cmd & CMD_IMPLEMENTED, status, bar_val: [0; 6], bar_wmask: [0; 6], bar_ro: [0; 6], words };
        let high = high_slots(decls);
        for i in 0..6 {
            if high[i] {
                let d = &decls[i - 1];
                let m = if d.exp < 32 { 0xffff_ffff } else { low_mask(d.exp - 32) };
                f.bar_wmask[i] = m;
                f.bar_val[i] = (d.addr >> 32) as u32 & m;
            } else {
                let d = &decls[i];
                if d.kind == Kind::None {
                    continue;
                }
                f.bar_ro[i] = d.flags();
                f.bar_wmask[i] = low_mask(d.exp);
                f.bar_val[i] = d.addr as u32 & f.bar_wmask[i];
            }
        }
        f
    }
    pub fn read(&self, off: u8) -> u32 {
        match off {
            4 => (self.status as u32) << 16 | self.cmd as u32,
            0x10 | 0x14 | 0x18 | 0x1c | 0x20 | 0x24 => {
                let i = (off as usize - 0x10) / 4;
                self.bar_val[i] | self.bar_ro[i]
            }
            _ => self.words[off as usize / 4],
        }
    }
    pub fn write(&mut self, off: u8, d: u32) {
        match off {
            4 => {
                self.cmd = d as u16 & CMD_IMPLEMENTED;
                self.status &= !((d >> 16) as u16 & STATUS_W1C);
            }
            0x10 | 0x14 | 0x18 | 0x1c | 0x20 | 0x24 => {
                let i = (off as usize - 0x10) / 4;
                self.bar_val[i] = d & self.bar_wmask[i];
            }
            _ => {}
        }
    }
    /// everything software can observe of the function (for "restored" checks)
    pub fn snapshot(&self) -> Vec<u32> {
        (0..64u32).map(|w| self.read((w * 4) as u8)).collect()
    }
    pub fn state_str(&self) -> String {
        format!(
            "cmd={:#x} st={:#x} bars={}",
            self.cmd,
            self.status,
            (0..6).map(|i| format!("{:#x}", self.bar_val[i] | self.bar_ro[i])).collect::<Vec<_>>().join(",")
        )
    }
}

#[derive(Clone, Debug)]
pub struct CfgAcc {
    pub seq: u64,
    pub write: bool,
    pub bdf: (u8, u8, u8),
    pub off: u8,
    pub val: u32,
}

impl CfgAcc {
    pub fn canon(&self) -> String {
        format!("{}{:#x}={:#x}", if self.write { "W" } else { "R" }, self.off, self.val)
    }
}

pub const CFG_BUDGET_PANIC: &str = "configuration access budget exhausted";

#[derive(Default)]
pub struct BusState {
    pub fns: BTreeMap<(u8, u8, u8), RefFn>,
    pub log: Vec<CfgAcc>,
    pub violations: Vec<String>,
    pub budget: u64,
    pub spent: u64,
}

pub type SharedBus = Rc<RefCell<BusState>>;

impl BusState {
    fn charge(&mut self) {
        self.spent += 1;
        if self.budget != 0 && self.spent > self.budget {
            panic!("{}", CFG_BUDGET_PANIC);
        }
    }
    pub fn read(&mut self, bdf: (u8, u8, u8), off: u8) -> u32 {
        self.charge();
        let v = match self.fns.get(&bdf) {
            Some(f) => f.read(off),
            None => 0xffff_ffff,
        };
        self.log.push(CfgAcc { seq: crate::hal::tick(), write: false, bdf, off, val: v });
        v
    }
    pub fn write(&mut self, bdf: (u8, u8, u8), off: u8, d: u32) {
        self.charge();
        self.log.push(CfgAcc { seq: crate::hal::tick(), write: true, bdf, off, val: d });
        if let Some(f) = self.fns.get_mut(&bdf) {
            let is_bar = (0x10..0x28).contains(&off) && off % 4 == 0;
            if is_bar && f.cmd & 3 != 0 {
                self.violations.push(format!(
                    "BAR register {:#x} written with {:#x} while address decoding is enabled (command {:#x})",
                    off, d, f.cmd
                ));
            }
            if !is_bar && off != 4 {
                self.violations.push(format!("configuration write of {:#x} to register {:#x}, which is neither the command register nor a BAR", d, off));
            }
            f.write(off, d);
        }
    }
}

pub fn new_bus(budget: u64) -> SharedBus {
    Rc::new(RefCell::new(BusState { budget, ..Default::default() }))
}

/// `ConfigurationAccess` straight over the reference bus.
pub struct RefAccess(pub SharedBus);

impl ConfigurationAccess for RefAccess {
    fn read_word(&self, df: DeviceFunction, register_offset: u8) -> u32 {
        self.0.borrow_mut().read((df.bus, df.device, df.function), register_offset)
    }
    fn write_word(&mut self, df: DeviceFunction, register_offset: u8, data: u32) {
        self.0.borrow_mut().write((df.bus, df.device, df.function), register_offset, data)
    }
    unsafe fn unsafe_clone(&self) -> Self {
        RefAccess(self.0.clone())
    }
}

/// The reference bus behind a memory-mapped CAM/ECAM window on the custom safe-mmio backend.
/// Address decoding from the specification: CAM `bus[23:16] dev[15:11] fn[10:8] reg[7:0]`,
/// ECAM `bus[27:20] dev[19:15] fn[14:12] reg[11:0]`.
pub struct CamDev {
    pub ecam: bool,
    pub bus: SharedBus,
}

pub fn cam_decode(ecam: bool, offset: usize) -> (u8, u8, u8, usize) {
    if ecam {
        (((offset >> 20) & 0xff) as u8, ((offset >> 15) & 0x1f) as u8, ((offset >> 12) & 7) as u8, offset & 0xfff)
    } else {
        (((offset >> 16) & 0xff) as u8, ((offset >> 11) & 0x1f) as u8, ((offset >> 8) & 7) as u8, offset & 0xff)
    }
}

impl MmioDevice for CamDev {
    fn read(&mut self, offset: usize, width: u8) -> u64 {
        let (b, d, f, reg) = cam_decode(self.ecam, offset);
        let mut st = self.bus.borrow_mut();
        if width != 4 || reg % 4 != 0 {
            st.violations.push(format!("CAM read of width {} at offset {:#x}", width, offset));
        }
        if reg > 0xff {
            return 0xffff_ffff;
        }
        st.read((b, d, f), reg as u8) as u64
    }
    fn write(&mut self, offset: usize, width: u8, value: u64) {
        let (b, d, f, reg) = cam_decode(self.ecam, offset);
        let mut st = self.bus.borrow_mut();
        if width != 4 || reg % 4 != 0 {
            st.violations.push(format!("CAM write of width {} at offset {:#x}", width, offset));
        }
        if reg <= 0xff {
            st.write((b, d, f), reg as u8, value as u32);
        }
    }
}

pub const CAM_BASE: usize = 0x5000_0000_0000;

/// How the code under test reaches configuration space.
#[derive(Clone, Copy, Debug, PartialEq, Eq)]
pub enum Mech {
    Direct,
    MmioCam,
    MmioEcam,
}

impl Mech {
    pub fn of(i: usize) -> Mech {
        match i % 3 {
            0 => Mech::Direct,
            1 => Mech::MmioCam,
            _ => Mech::MmioEcam,
        }
    }
    pub fn name(&self) -> &'static str {
        match self {
            Mech::Direct => "direct",
            Mech::MmioCam => "mmio-cam",
            Mech::MmioEcam => "mmio-ecam",
        }
    }
}

/// Registers the CAM window on the custom bus (call after `mmio::reset()`) and returns the real `MmioCam`.
pub fn mmio_cam(bus: &SharedBus, ecam: bool) -> MmioCam<'static> {
    let cam = if ecam { Cam::Ecam } else { Cam::MmioCam };
    mmio::register(CAM_BASE, cam.size() as usize, "cam", Box::new(CamDev { ecam, bus: bus.clone() }));
    // SAFETY: the pointer is a fake address served by the custom safe-mmio backend; it is never dereferenced.
    unsafe { MmioCam::new(CAM_BASE as *mut u8, cam) }
}

/// Either access path behind one type, so callers are not generic.
pub enum AnyAccess {
    Direct(RefAccess),
    Mmio(MmioCam<'static>),
}

impl ConfigurationAccess for AnyAccess {
    fn read_word(&self, df: DeviceFunction, register_offset: u8) -> u32 {
        match self {
            AnyAccess::Direct(a) => a.read_word(df, register_offset),
            AnyAccess::Mmio(a) => a.read_word(df, register_offset),
        }
    }
    fn write_word(&mut self, df: DeviceFunction, register_offset: u8, data: u32) {
        match self {
            AnyAccess::Direct(a) => a.write_word(df, register_offset, data),
            AnyAccess::Mmio(a) => a.write_word(df, register_offset, data),
        }
    }
    unsafe fn unsafe_clone(&self) -> Self {
        match self {
            // SAFETY: forwarded contract.
            AnyAccess::Direct(a) => AnyAccess::Direct(unsafe { a.unsafe_clone() }),
            // SAFETY: forwarded contract.
            AnyAccess::Mmio(a) => AnyAccess::Mmio(unsafe { a.unsafe_clone() }),
        }
    }
}

pub fn access(bus: &SharedBus, mech: Mech) -> AnyAccess {
    match mech {
        Mech::Direct => AnyAccess::Direct(RefAccess(bus.clone())),
        Mech::MmioCam => AnyAccess::Mmio(mmio_cam(bus, false)),
        Mech::MmioEcam => AnyAccess::Mmio(mmio_cam(bus, true)),
    }
}

pub fn trace_str(log: &[CfgAcc]) -> String {
    if log.is_empty() { "-".into() } else { log.iter().map(|a| a.canon()).collect::<Vec<_>>().join(" ") }
}

/// Random, register-level well-formed BAR declaration of the given kind.
pub fn random_decl(rng: &mut crate::rng::Rng, kind: Kind) -> BarDecl {
    let (lo, hi) = match kind {
        Kind::None => return BarDecl::NONE,
        Kind::Io => (2, 31),
        Kind::Mem64 => (4, 63),
        _ => (4, 31),
    };
    let exp = if rng.chance(1, 3) { *rng.pick(&[lo, hi, 12, 14, 20]) } else { rng.range(lo as u64, hi as u64) as u8 };
    let exp = exp.clamp(lo, hi);
    BarDecl { kind, pf: kind != Kind::Io && rng.chance(1, 2), exp, addr: random_addr(rng, kind, exp) }
}

/// Address assigned to a BAR: a multiple of its size inside the register width; boundary-biased
/// (zero = unassigned, the highest possible slot, random).
pub fn random_addr(rng: &mut crate::rng::Rng, kind: Kind, exp: u8) -> u64 {
    let width = if kind == Kind::Mem64 { 64 } else { 32 };
    let slots_bits = width - exp as u32; // address = k << exp, k < 2^slots_bits
    let max_k = if slots_bits >= 64 { u64::MAX } else { (1u64 << slots_bits) - 1 };
    let k = match rng.below(8) {
        0 => 0,
        1 => max_k,
        2 => 1.min(max_k),
        3 => max_k / 2 + 1,
        _ => rng.next() & max_k,
    };
    k << exp
}

pub fn random_kind(rng: &mut crate::rng::Rng) -> Kind {
    *rng.pick(&[Kind::None, Kind::Mem32, Kind::Mem32, Kind::Below1M, Kind::Mem64, Kind::Mem64, Kind::Io, Kind::MemRsvd])
}
