//! C17: socket streams are loss-free and obey credit-based flow control both ways.
//!
//! Streams of cases:
//! * `stream`  — 1–2 connections on the real `VsockConnectionManager`, random interleavings of
//!   sends / receives of arbitrary sizes / honest peer data within credit / credit updates and
//!   requests, every small ring capacity (1, 2, 3, …), occasional credit-breaking peers;
//! * `info`    — caller-managed `ConnectionInfo` with `VirtIOSocket` directly: boundary-biased 32-bit
//!   credit tuples, `done_forwarding` across 2^32, hostile peer credit;
//! * `txwrap`  — > 4 GiB sent on one connection in ~1 MiB packets so `tx_cnt` wraps;
//! * `rxwrap`  — > 4 GiB received through the ring buffer so `fwd_cnt` wraps (oracle only: the
//!   list-based Lean model cannot replay gigabytes; covered by theorem `rx_cycle`).

use crate::hal::{self, LedgerHal};
use crate::mtrans::ModelTransport;
use crate::proto::Case;
use crate::rng::Rng;
use crate::runner::{Ctx, Tier, guarded, par_cases};
use crate::vsock_world::*;
use std::collections::BTreeMap;
use std::sync::OnceLock;
use virtio_drivers::device::socket::{ConnectionInfo, SocketError, VirtIOSocket, VsockAddr, VsockEvent};
use virtio_drivers::Error;

pub const CAPS: [u32; 16] = [1, 2, 3, 4, 5, 7, 8, 13, 16, 31, 64, 100, 256, 512, 1024, 4096];
pub const FEATS: [u64; 6] = [0, 1 << 32, (1 << 32) | (1 << 28), (1 << 32) | (1 << 29), (1 << 32) | (1 << 28) | (1 << 29), u64::MAX];

static POOL: OnceLock<Vec<u8>> = OnceLock::new();
pub fn pool() -> &'static [u8] {
    POOL.get_or_init(|| {
        let mut r = Rng::new(0xC17);
        let mut v = Vec::with_capacity(3 << 20);
        while v.len() < (3 << 20) {
            v.extend_from_slice(&r.next().to_le_bytes());
        }
        v
    })
}

pub fn rand_cfg(rng: &mut Rng) -> Cfg {
    let guest_cid = match rng.below(4) {
        0 => 3,
        1 => rng.range(3, 1000),
        2 => 0x1_0000_0000 + rng.below(1000),
        _ => rng.next(),
    };
    Cfg { guest_cid, cap: *rng.pick(&CAPS), rxbuf: *rng.pick(&[64usize, 512, 512, 4096]), features: *rng.pick(&FEATS), max_q: *rng.pick(&[8u32, 16, 256]) }
}

pub fn tag_cfg(c: &mut Case, cfg: &Cfg) {
    c.tag(format!("cap={}", cfg.cap));
    c.tag(format!("rxbuf={}", cfg.rxbuf));
    c.tag(format!("feat={:#x}", cfg.features & ((1 << 28) | (1 << 29) | (1 << 32))));
}

/// establishes a connection either way round; returns its key
pub fn establish(w: &mut World, c: &mut Case, rng: &mut Rng, key: Key, outgoing: bool, ba: u32) {
    let g = w.cfg.guest_cid;
    if outgoing {
        w.connect(c, key);
        let mut p = InjPkt::ctl(key, g, OP_RESPONSE, ba, 0);
        p.honest_fwd = Some(0);
        w.inject(c, p);
        w.poll(c);
    } else {
        if !w.listening.contains(&key.lp) {
            w.listen(c, key.lp);
        }
        let mut p = InjPkt::ctl(key, g, OP_REQUEST, ba, 0);
        p.honest_fwd = Some(0);
        w.inject(c, p);
        w.poll(c);
    }
    if let Some(o) = w.conns.get_mut(&key) {
        o.peer_alloc = ba;
    }
    let _ = rng;
}

fn biased_len(rng: &mut Rng, around: u64, max: u64) -> usize {
    let v = match rng.below(8) {
        0 => 0,
        1 => 1,
        2 => around,
        3 => around + 1,
        4 => around.saturating_sub(1),
        5 => rng.below(max + 1),
        _ => rng.below(around + 2),
    };
    v.min(max) as usize
}

/// one random step of the stream walk on connection `key`
pub fn stream_step(w: &mut World, c: &mut Case, rng: &mut Rng, key: Key, hostile: bool) {
    let g = w.cfg.guest_cid;
    let maxpay = (w.cfg.rxbuf - HDR) as u64;
    if !w.conns.contains_key(&key) {
        // connection is gone (closed): exercise the error paths
        match rng.below(4) {
            0 => {
                w.send(c, key, &[1, 2, 3]);
            }
            1 => {
                w.recv(c, key, 4);
            }
            2 => w.avail(c, key),
            _ => w.ctl(c, key, "credit"),
        }
        return;
    }
    match rng.below(if hostile { 20 } else { 17 }) {
        0..=3 => {
            // honest peer data within the credit the driver advertised
            let free = w.conns[&key].driver_free_seen() as u64;
            let len = biased_len(rng, free, free.min(maxpay));
            let (ba, fc, hf) = w.honest_credit(rng, key);
            let mut p = InjPkt::rw(key, g, rng.bytes(len), ba, fc);
            p.within_credit = true;
            p.honest_fwd = hf;
            if w.inject(c, p) && rng.chance(3, 4) {
                w.poll(c);
            }
        }
        4..=6 => {
            let buffered = w.conns[&key].buffered.len() as u64;
            let n = match rng.below(6) {
                0 => 0,
                1 => 1,
                2 => buffered as usize,
                3 => (w.cfg.cap as usize) + 5,
                _ => biased_len(rng, buffered, w.cfg.cap as u64 + 3),
            };
            w.recv(c, key, n);
        }
        7..=9 => {
            let free = w.conns[&key].peer_free() as u64;
            let len = biased_len(rng, free, 6000);
            let off = rng.below(1 << 20) as usize;
            w.send(c, key, &pool()[off..off + len]);
        }
        10 | 11 => {
            let (ba, fc, hf) = w.honest_credit(rng, key);
            let mut p = InjPkt::ctl(key, g, OP_CREDIT_UPDATE, ba, fc);
            p.honest_fwd = hf;
            if w.inject(c, p) && rng.chance(3, 4) {
                w.poll(c);
            }
        }
        12 => {
            let (ba, fc, hf) = w.honest_credit(rng, key);
            let mut p = InjPkt::ctl(key, g, OP_CREDIT_REQUEST, ba, fc);
            p.honest_fwd = hf;
            if w.inject(c, p) {
                w.poll(c);
            }
        }
        13 => w.poll(c),
        14 => w.ctl(c, key, "credit"),
        15 => w.avail(c, key),
        16 => {
            while !w.unconsumed.is_empty() && !w.dead {
                w.poll(c);
            }
        }
        17 => {
            // peer ignores the credit: more than the driver has room for
            let free = w.conns[&key].driver_free_seen() as u64;
            let len = ((free + 1 + rng.below(4)).min(maxpay)) as usize;
            let (ba, fc, hf) = w.honest_credit(rng, key);
            let mut p = InjPkt::rw(key, g, rng.bytes(len), ba, fc);
            p.within_credit = (len as u64) <= free;
            p.honest_fwd = hf;
            if w.inject(c, p) {
                w.poll(c);
            }
        }
        18 => {
            // hostile credit values (forwarded count ahead of what was sent, absurd allocations)
            let p = InjPkt::ctl(key, g, OP_CREDIT_UPDATE, rng.u32_biased(), rng.u32_biased());
            if w.inject(c, p) {
                w.poll(c);
            }
        }
        _ => {
            let n = rng.below(4) as usize;
            let mut p = InjPkt::rw(key, g, rng.bytes(n), rng.u32_biased(), rng.u32_biased());
            p.within_credit = (p.data.len() as u64) <= w.conns[&key].driver_free_seen() as u64;
            if w.inject(c, p) {
                w.poll(c);
            }
        }
    }
}

/// drains everything still in flight and checks the final streams
pub fn finish(w: &mut World, c: &mut Case, keys: &[Key]) {
    while !w.unconsumed.is_empty() && !w.dead {
        w.poll(c);
    }
    for k in keys {
        let mut guard = 0;
        while !w.dead && w.conns.get(k).map(|o| !o.buffered.is_empty()).unwrap_or(false) && guard < 10_000 {
            let n = w.conns[k].buffered.len().min(777);
            w.recv(c, *k, n);
            guard += 1;
        }
        if !w.dead && w.conns.contains_key(k) {
            w.avail(c, *k);
            w.ctl(c, *k, "credit");
        }
    }
}

fn stream_case(ctx: &Ctx, i: usize, id: String, hostile: bool) -> Case {
    let mut c = Case::new(id);
    let mut rng = ctx.case_rng(if hostile { "hostile" } else { "stream" }, i);
    let mut cfg = rand_cfg(&mut rng);
    // every tiny capacity shows up early and often
    if i < 64 {
        cfg.cap = CAPS[i % CAPS.len()];
    }
    tag_cfg(&mut c, &cfg);
    let mut w = match World::new(cfg.clone(), &mut c) {
        Ok(w) => w,
        Err(e) => {
            c.fail(e);
            return c;
        }
    };
    let nconn = 1 + rng.below(2) as usize;
    let mut keys = vec![];
    for j in 0..nconn {
        let key = Key { pc: *rng.pick(&[2u64, 5, 0x1_0000_0002]), pp: 1000 + j as u32, lp: 20 + rng.below(2) as u32 };
        if keys.contains(&key) {
            continue;
        }
        let ba = match rng.below(4) {
            0 => 0,
            1 => rng.below(32) as u32,
            2 => u32::MAX,
            _ => rng.below(8192) as u32,
        };
        let outgoing = rng.chance(1, 2);
        establish(&mut w, &mut c, &mut rng, key, outgoing, ba);
        keys.push(key);
    }
    let steps = ctx.tier.pick(60, 150) + rng.below(60) as usize;
    for _ in 0..steps {
        if w.dead {
            break;
        }
        let key = *rng.pick(&keys);
        stream_step(&mut w, &mut c, &mut rng, key, hostile);
        if !hostile && rng.chance(1, 60) && w.conns.contains_key(&key) {
            // peer shuts down mid-stream: buffered data must stay readable
            let (ba, fc, hf) = w.honest_credit(&mut rng, key);
            let mut p = InjPkt::ctl(key, w.cfg.guest_cid, if rng.chance(1, 2) { OP_SHUTDOWN } else { OP_RST }, ba, fc);
            p.honest_fwd = hf;
            if w.inject(&mut c, p) {
                w.poll(&mut c);
            }
        }
    }
    finish(&mut w, &mut c, &keys);
    c.nontrivial = w.delivered_bytes > 0 || w.sent_bytes > 0;
    c.tag(if w.delivered_bytes > 0 { "rx-bytes>0" } else { "rx-bytes=0" });
    c.tag(if w.sent_bytes > 0 { "tx-bytes>0" } else { "tx-bytes=0" });
    drop(w);
    c
}

/// > 4 GiB through `send` in ~1 MiB packets: `tx_cnt` wraps; header fields and credit window are
/// checked by the reference peer on every packet, and every step is compared with the model.
fn txwrap_case(ctx: &Ctx, i: usize, id: String) -> Case {
    let mut c = Case::new(id);
    let mut rng = ctx.case_rng("txwrap", i);
    let cfg = Cfg { guest_cid: 3 + rng.below(100), cap: *rng.pick(&[1u32, 16, 1024]), rxbuf: 512, features: *rng.pick(&FEATS), max_q: 8 };
    tag_cfg(&mut c, &cfg);
    let mut w = match World::new(cfg, &mut c) {
        Ok(w) => w,
        Err(e) => {
            c.fail(e);
            return c;
        }
    };
    w.probe = false;
    let key = Key { pc: 2, pp: 7000, lp: 70 };
    let window: u32 = *rng.pick(&[u32::MAX, 3 << 20, (1 << 20) + 17]);
    establish(&mut w, &mut c, &mut rng, key, true, window);
    let g = w.cfg.guest_cid;
    let target: u64 = (1u64 << 32) + (6 << 20);
    let mut k = 0usize;
    while !w.dead && w.conns.get(&key).map(|o| o.tx_total < target).unwrap_or(false) {
        let o = &w.conns[&key];
        let near = o.tx_total + (4 << 20) > (1u64 << 32) && o.tx_total < (1u64 << 32) + (2 << 20);
        let free = o.peer_free() as u64;
        let len = if near { biased_len(&mut rng, free.min(1 << 20), 1 << 20) } else { (free.min((1 << 20) - rng.below(3))) as usize };
        let off = rng.below(1 << 20) as usize;
        let ok = w.send(&mut c, key, &pool()[off..off + len]);
        k += 1;
        if !ok || rng.chance(1, 3) || w.conns[&key].peer_free() < (1 << 20) {
            // the peer forwards what it received and says so
            let o = w.conns.get_mut(&key).unwrap();
            o.peer_consumed = if near && rng.chance(1, 2) { o.peer_consumed + rng.below(o.tx_total - o.peer_consumed + 1) } else { o.tx_total };
            let (fc, hf) = (o.peer_consumed as u32, Some(o.peer_consumed));
            let mut p = InjPkt::ctl(key, g, OP_CREDIT_UPDATE, window, fc);
            p.honest_fwd = hf;
            w.inject(&mut c, p);
            w.poll(&mut c);
        }
        if k % 64 == 0 {
            free_dead_bounces();
        }
    }
    if !w.dead {
        w.ctl(&mut c, key, "shutdown");
    }
    c.nontrivial = w.sent_bytes > (1u64 << 32);
    c.tag(format!("tx-wraps={}", w.sent_bytes >> 32));
    drop(w);
    c
}

/// > 4 GiB received through the per-connection ring buffer: `fwd_cnt` wraps.  Oracle only.
fn rxwrap_case(ctx: &Ctx, i: usize, id: String) -> Case {
    let mut c = Case::new(id);
    let mut rng = ctx.case_rng("rxwrap", i);
    let cap: u32 = *rng.pick(&[(1u32 << 20) + 3, 3 << 20, (1 << 20) - 44]);
    let cfg = Cfg { guest_cid: 3, cap, rxbuf: BIG_RX, features: *rng.pick(&FEATS), max_q: 8 };
    tag_cfg(&mut c, &cfg);
    let mut w = match World::new(cfg, &mut c) {
        Ok(w) => w,
        Err(e) => {
            c.fail(e);
            return c;
        }
    };
    let key = Key { pc: 2, pp: 7001, lp: 71 };
    establish(&mut w, &mut c, &mut rng, key, false, 1 << 16);
    w.probe = false;
    w.model = false;
    let g = w.cfg.guest_cid;
    let target: u64 = (1u64 << 32) + (5 << 20);
    let maxpay = (BIG_RX - HDR) as u64;
    let mut k = 0usize;
    while !w.dead && w.conns.get(&key).map(|o| o.delivered < target).unwrap_or(false) {
        let free = w.conns[&key].driver_free_seen() as u64;
        let near = w.conns[&key].delivered + (3 << 20) > (1u64 << 32);
        let len = if near { biased_len(&mut rng, free.min(maxpay), free.min(maxpay)) } else { free.min(maxpay) as usize };
        if len > 0 || rng.chance(1, 8) {
            let off = rng.below(1 << 20) as usize;
            let mut p = InjPkt::rw(key, g, pool()[off..off + len].to_vec(), 1 << 16, 0);
            p.within_credit = true;
            w.inject(&mut c, p);
            w.poll(&mut c);
        }
        let n = if near { biased_len(&mut rng, w.conns[&key].buffered.len() as u64, 4 << 20) } else { 4 << 20 };
        w.recv(&mut c, key, n);
        // the peer learns the new credit from a credit update it asked for
        if w.conns[&key].driver_free_seen() < maxpay as u32 || rng.chance(1, 4) {
            w.inject(&mut c, InjPkt::ctl(key, g, OP_CREDIT_REQUEST, 1 << 16, 0));
            w.poll(&mut c);
        }
        k += 1;
        if k % 16 == 0 {
            free_dead_bounces();
        }
    }
    c.step("vsock bad", "bad-op"); // keeps the case visible to the model driver
    c.nontrivial = w.delivered_bytes > (1u64 << 32);
    c.tag(format!("rx-wraps={}", w.delivered_bytes >> 32));
    c.tag("oracle-only");
    drop(w);
    c
}

/// caller-managed `ConnectionInfo` + `VirtIOSocket`: pure credit arithmetic on boundary-biased tuples
fn info_case(ctx: &Ctx, i: usize, id: String) -> Case {
    let mut c = Case::new(id);
    let mut rng = ctx.case_rng("info", i);
    let cfg = Cfg { guest_cid: rng.range(3, 50), cap: 0, rxbuf: 512, features: *rng.pick(&FEATS), max_q: 8 };
    let (mut sock, _ts, _q) = match make_socket::<512>(&cfg) {
        Ok(x) => x,
        Err(e) => {
            c.fail(e);
            return c;
        }
    };
    let key = Key { pc: rng.range(2, 9), pp: rng.u32_biased(), lp: rng.u32_biased() };
    let ba0 = rng.u32_biased();
    let mut info = ConnectionInfo::new(key.addr(), key.lp);
    info.buf_alloc = ba0;
    c.step(format!("vsock l_new cid={} {} ba={}", cfg.guest_cid, key.args(), ba0), "ok");
    // reference state (spec §5.10.6.3, free-running u32 counters)
    let (mut tx_cnt, mut fwd, mut p_alloc, mut p_fwd, mut pending) = (0u32, 0u32, 0u32, 0u32, false);
    let check_hdr = |c: &mut Case, p: &TxPkt, op: u16, fwd: u32, what: &str| {
        let h = &p.hdr;
        if h.src_cid != cfg.guest_cid || h.dst_cid != key.pc || h.src_port != key.lp || h.dst_port != key.pp || h.typ != 1 || h.op != op || h.flags != 0 || h.buf_alloc != ba0 || h.fwd_cnt != fwd || h.len as usize != p.payload.len() {
            c.fail(format!("{}: header {:?} wrong (expected op {} buf_alloc {} fwd_cnt {})", what, h, op, ba0, fwd));
        }
    };
    for _ in 0..ctx.tier.pick(40, 80) {
        match rng.below(5) {
            0 => {
                let (ba, fc) = match rng.below(3) {
                    0 => (rng.u32_biased(), tx_cnt.wrapping_sub(rng.below(5) as u32)),
                    1 => (rng.below(5000) as u32, tx_cnt.wrapping_sub(rng.below(3000) as u32)),
                    _ => (rng.u32_biased(), rng.u32_biased()),
                };
                let op = *rng.pick(&[OP_CREDIT_UPDATE, OP_RW, OP_RESPONSE, OP_CREDIT_REQUEST]);
                let mut pk = InjPkt::ctl(key, cfg.guest_cid, op, ba, fc);
                pk.hdr.dst_cid = cfg.guest_cid;
                let mut bytes = pk.hdr.encode().to_vec();
                bytes.extend_from_slice(&pk.data);
                if let Ok(true) = dev_inject(HDR as u32, &bytes) {
                    let r = guarded(|| {
                        sock.poll(|ev: VsockEvent, _| {
                            info.update_for_event(&ev);
                            Ok(Some(ev))
                        })
                    });
                    match r {
                        Ok(Ok(Some(_))) => {}
                        other => c.fail(format!("low-level poll failed: {:?}", other.map(|r| r.map(|_| ()).map_err(|e| err_str(&e))))),
                    }
                    p_alloc = ba;
                    p_fwd = fc;
                    if op == OP_CREDIT_UPDATE {
                        pending = false;
                    }
                    c.step(format!("vsock l_event ba={} fc={} op={}", ba, fc, op), "ok");
                }
            }
            1 => {
                let n: usize = match rng.below(4) {
                    0 => rng.u32_biased() as usize,
                    1 => (1usize << 32) + rng.below(10) as usize,
                    2 => rng.below(100) as usize,
                    _ => (rng.next() >> rng.below(40)) as usize,
                };
                match guarded(|| info.done_forwarding(n)) {
                    Ok(()) => {}
                    Err(p) => {
                        c.fail(format!("panic in done_forwarding({}) with fwd_cnt={}: {}", n, fwd, p));
                        c.step(format!("vsock l_fwd n={}", n), "panic");
                        break;
                    }
                }
                fwd = fwd.wrapping_add(n as u32);
                c.step(format!("vsock l_fwd n={}", n), "ok");
            }
            2 | 3 => {
                let free = p_alloc.saturating_sub(tx_cnt.wrapping_sub(p_fwd));
                let len = biased_len(&mut rng, free as u64, 5000);
                let off = rng.below(1 << 20) as usize;
                let data = &pool()[off..off + len];
                let r = guarded(|| sock.send(data, &mut info));
                let tx = take_tx();
                let out = match &r {
                    Ok(Ok(())) => "ok".to_string(),
                    Ok(Err(e)) => format!("err {}", err_str(e)),
                    Err(_) => "panic".into(),
                };
                c.step(format!("vsock l_send len={}", len), format!("{} tx={}", out, tx_str(&tx)));
                match r {
                    Err(p) => {
                        c.fail(format!("panic in send({} bytes) with tx_cnt={} peer_buf_alloc={} peer_fwd_cnt={}: {}", len, tx_cnt, p_alloc, p_fwd, p));
                        break;
                    }
                    Ok(Ok(())) => {
                        if len as u64 > free as u64 {
                            c.fail(format!("send of {} bytes accepted with peer_free {}", len, free));
                        }
                        if tx.len() != 1 {
                            c.fail("accepted send did not transmit exactly one packet");
                        } else {
                            check_hdr(&mut c, &tx[0], OP_RW, fwd, "send");
                            if tx[0].payload != data {
                                c.fail("payload differs");
                            }
                        }
                        tx_cnt = tx_cnt.wrapping_add(len as u32);
                        c.nontrivial = true;
                    }
                    Ok(Err(Error::SocketDeviceError(SocketError::InsufficientBufferSpaceInPeer))) => {
                        if len as u64 <= free as u64 {
                            c.fail(format!("send of {} bytes refused with peer_free {}", len, free));
                        }
                        if pending {
                            if !tx.is_empty() {
                                c.fail("second credit request before a credit update");
                            }
                        } else if tx.len() != 1 {
                            c.fail("first refused send did not issue exactly one credit request");
                        } else {
                            check_hdr(&mut c, &tx[0], OP_CREDIT_REQUEST, fwd, "credit request");
                        }
                        pending = true;
                    }
                    Ok(Err(e)) => c.fail(format!("send failed: {}", err_str(&e))),
                }
            }
            _ => {
                let r = guarded(|| sock.credit_update(&info));
                let tx = take_tx();
                c.step("vsock l_credit", format!("{} tx={}", if matches!(r, Ok(Ok(()))) { "ok" } else { "err" }, tx_str(&tx)));
                if tx.len() == 1 {
                    check_hdr(&mut c, &tx[0], OP_CREDIT_UPDATE, fwd, "credit_update");
                } else {
                    c.fail("credit_update did not transmit exactly one packet");
                }
            }
        }
        for e in take_dev_errors() {
            c.fail(format!("device: {}", e));
        }
        for v in hal::with(|h| std::mem::take(&mut h.violations)) {
            c.fail(format!("ledger: {}", v));
        }
    }
    c.tag("info");
    drop(sock);
    c
}

pub fn run(ctx: &Ctx) -> (Vec<Case>, String, bool, BTreeMap<String, String>) {
    let _ = pool();
    let mut all = vec![];
    // the long soaks first so they overlap with everything else
    let nwrap = ctx.tier.pick(1, 3);
    std::thread::scope(|sc| {
        let h = sc.spawn(|| par_cases(ctx, "C17", "wrap", 2 * nwrap, |i, id| if i % 2 == 0 { txwrap_case(ctx, i / 2, id) } else { rxwrap_case(ctx, i / 2, id) }));
        all.extend(par_cases(ctx, "C17", "stream", ctx.tier.pick(1500, 20000), |i, id| stream_case(ctx, i, id, false)));
        all.extend(par_cases(ctx, "C17", "hostile", ctx.tier.pick(400, 5000), |i, id| stream_case(ctx, i, id, true)));
        all.extend(par_cases(ctx, "C17", "info", ctx.tier.pick(600, 8000), |i, id| info_case(ctx, i, id)));
        all.extend(h.join().unwrap());
    });
    // several connections, connection requests to listening and other ports, resets, shutdowns (C18's
    // streams): data of one connection is never lost because of packets for another
    let mut t18 = crate::c18_vsockconn::run(ctx).0;
    for c in t18.iter_mut() {
        c.id = format!("C17-via-{}", c.id);
        c.tag("connection-table");
    }
    all.extend(t18);
    let rule = "streams: real VsockConnectionManager (LedgerHal, ModelTransport, reference split-queue device) with 1-2 connections, random walks of send/recv/update_credit/available/poll against an honest reference peer (data within advertised credit, honest credit updates incl. shrinking buf_alloc, credit requests, mid-stream shutdown) — `hostile` adds credit-breaking data and arbitrary credit values; `info`: VirtIOSocket + caller-managed ConnectionInfo on boundary-biased 32-bit tuples; `wrap`: >4 GiB sent (tx_cnt wraps, model-compared) and >4 GiB received (fwd_cnt wraps, oracle only). non-trivial = at least one payload byte moved end to end (streams), an accepted send (info), or the counter actually wrapped (wrap)".to_string();
    let _ = Tier::Quick;
    (all, rule, false, BTreeMap::new())
}
