//! Shared vsock co-simulation world for C17/C18: the REAL `VirtIOSocket` / `VsockConnectionManager`
//! over `LedgerHal` + `ModelTransport`, a reference device on the rx/tx/event queues (`RefQueue`),
//! and a reference peer / connection table written from the VirtIO specification (§5.10.6) and the
//! property texts.  Every operation is recorded as a model step and checked by the oracles.

use crate::hal::{self, LedgerHal};
use crate::mtrans::{ModelTransport, TState};
use crate::proto::Case;
use crate::refdev::RefQueue;
use crate::runner::guarded;
use std::cell::{Cell, RefCell};
use std::collections::{BTreeMap, BTreeSet, VecDeque};
use std::rc::Rc;
use virtio_drivers::device::socket::{DisconnectReason, SocketError, VirtIOSocket, VsockAddr, VsockConnectionManager, VsockEvent, VsockEventType};
use virtio_drivers::transport::DeviceType;
use virtio_drivers::Error;

pub const HDR: usize = 44;
pub const OP_REQUEST: u16 = 1;
pub const OP_RESPONSE: u16 = 2;
pub const OP_RST: u16 = 3;
pub const OP_SHUTDOWN: u16 = 4;
pub const OP_RW: u16 = 5;
pub const OP_CREDIT_UPDATE: u16 = 6;
pub const OP_CREDIT_REQUEST: u16 = 7;

#[derive(Clone, Copy, Debug, PartialEq, Eq, PartialOrd, Ord)]
pub struct Key {
    pub pc: u64,
    pub pp: u32,
    pub lp: u32,
}
impl Key {
    pub fn addr(&self) -> VsockAddr {
        VsockAddr { cid: self.pc, port: self.pp }
    }
    pub fn args(&self) -> String {
        format!("pc={} pp={} lp={}", self.pc, self.pp, self.lp)
    }
}

/// `struct virtio_vsock_hdr` (spec §5.10.6), little endian, 44 bytes.
#[derive(Clone, Debug, PartialEq, Eq)]
pub struct Hdr {
    pub src_cid: u64,
    pub dst_cid: u64,
    pub src_port: u32,
    pub dst_port: u32,
    pub len: u32,
    pub typ: u16,
    pub op: u16,
    pub flags: u32,
    pub buf_alloc: u32,
    pub fwd_cnt: u32,
}
impl Hdr {
    pub fn parse(b: &[u8]) -> Hdr {
        let u32at = |o: usize| u32::from_le_bytes(b[o..o + 4].try_into().unwrap());
        Hdr {
            src_cid: u64::from_le_bytes(b[0..8].try_into().unwrap()),
            dst_cid: u64::from_le_bytes(b[8..16].try_into().unwrap()),
            src_port: u32at(16),
            dst_port: u32at(20),
            len: u32at(24),
            typ: u16::from_le_bytes(b[28..30].try_into().unwrap()),
            op: u16::from_le_bytes(b[30..32].try_into().unwrap()),
            flags: u32at(32),
            buf_alloc: u32at(36),
            fwd_cnt: u32at(40),
        }
    }
    pub fn encode(&self) -> [u8; HDR] {
        let mut b = [0u8; HDR];
        b[0..8].copy_from_slice(&self.src_cid.to_le_bytes());
        b[8..16].copy_from_slice(&self.dst_cid.to_le_bytes());
        b[16..20].copy_from_slice(&self.src_port.to_le_bytes());
        b[20..24].copy_from_slice(&self.dst_port.to_le_bytes());
        b[24..28].copy_from_slice(&self.len.to_le_bytes());
        b[28..30].copy_from_slice(&self.typ.to_le_bytes());
        b[30..32].copy_from_slice(&self.op.to_le_bytes());
        b[32..36].copy_from_slice(&self.flags.to_le_bytes());
        b[36..40].copy_from_slice(&self.buf_alloc.to_le_bytes());
        b[40..44].copy_from_slice(&self.fwd_cnt.to_le_bytes());
        b
    }
}

pub fn hex(b: &[u8]) -> String {
    const D: &[u8; 16] = b"0123456789abcdef";
    let mut s = String::with_capacity(b.len() * 2);
    for x in b {
        s.push(D[(x >> 4) as usize] as char);
        s.push(D[(x & 15) as usize] as char);
    }
    s
}
pub fn hex_or_dash(b: &[u8]) -> String {
    if b.is_empty() { "-".into() } else { hex(b) }
}

/// One packet the driver put on the transmit queue, as the device read it.
#[derive(Clone, Debug)]
pub struct TxPkt {
    pub raw: [u8; HDR],
    pub hdr: Hdr,
    pub payload: Vec<u8>,
}

pub struct Dev {
    pub rx: RefQueue,
    pub tx: RefQueue,
    pub evq: RefQueue,
    pub event_idx: bool,
    pub tx_pkts: Vec<TxPkt>,
    pub errors: Vec<String>,
}

thread_local! {
    static DEV: RefCell<Option<Dev>> = const { RefCell::new(None) };
    static SPINS: Cell<u64> = const { Cell::new(0) };
}

/// The device side of the transmit queue: fetch, validate, read and complete every available chain.
pub fn serve_tx() {
    DEV.with(|d| {
        let Ok(mut g) = d.try_borrow_mut() else { return };
        let Some(dev) = g.as_mut() else { return };
        loop {
            match dev.tx.fetch_one() {
                Ok(Some(ch)) => {
                    if ch.segs.iter().any(|s| s.write) {
                        dev.errors.push("tx chain contains a device-writable descriptor".into());
                    }
                    match dev.tx.read_in(&ch) {
                        Ok(bytes) => {
                            if bytes.len() < HDR {
                                dev.errors.push(format!("tx packet of {} bytes is shorter than the header", bytes.len()));
                            } else {
                                let mut raw = [0u8; HDR];
                                raw.copy_from_slice(&bytes[..HDR]);
                                dev.tx_pkts.push(TxPkt { raw, hdr: Hdr::parse(&raw), payload: bytes[HDR..].to_vec() });
                            }
                        }
                        Err(e) => dev.errors.push(format!("tx chain unreadable: {}", e)),
                    }
                    if let Err(e) = dev.tx.complete(ch.head, 0) {
                        dev.errors.push(e);
                    }
                    if dev.event_idx {
                        let _ = dev.tx.set_avail_event(dev.tx.fetch_idx);
                    }
                    SPINS.with(|s| s.set(0));
                }
                Ok(None) => break,
                Err(e) => {
                    dev.errors.push(format!("tx queue: {}", e));
                    break;
                }
            }
        }
    })
}

fn spin_hook() {
    serve_tx();
    let n = SPINS.with(|s| {
        s.set(s.get() + 1);
        s.get()
    });
    if n > 10_000 {
        SPINS.with(|s| s.set(0));
        panic!("driver spins forever waiting for the transmit queue");
    }
}

pub fn take_tx() -> Vec<TxPkt> {
    DEV.with(|d| d.borrow_mut().as_mut().map(|d| std::mem::take(&mut d.tx_pkts)).unwrap_or_default())
}
pub fn take_dev_errors() -> Vec<String> {
    DEV.with(|d| d.borrow_mut().as_mut().map(|d| std::mem::take(&mut d.errors)).unwrap_or_default())
}
/// receive buffers currently owned by the device: available-not-fetched + fetched-not-completed
pub fn dev_posted() -> usize {
    DEV.with(|d| {
        let g = d.borrow();
        let dev = g.as_ref().unwrap();
        dev.rx.pending().unwrap_or(0) as usize + dev.rx.inflight.len()
    })
}
/// The device completes one receive buffer: writes `bytes`, reports `used` bytes.
pub fn dev_inject(used: u32, bytes: &[u8]) -> Result<bool, String> {
    DEV.with(|d| {
        let mut g = d.borrow_mut();
        let dev = g.as_mut().unwrap();
        let Some(ch) = dev.rx.fetch_one()? else { return Ok(false) };
        if ch.segs.iter().any(|s| !s.write) {
            return Err("rx chain contains a device-readable descriptor".into());
        }
        dev.rx.write_out(&ch, bytes)?;
        dev.rx.complete(ch.head, used)?;
        Ok(true)
    })
}
pub fn dev_rx_buffer_len() -> usize {
    DEV.with(|d| {
        let g = d.borrow();
        let dev = g.as_ref().unwrap();
        let mut q = dev.rx.clone();
        match q.fetch_one() {
            Ok(Some(ch)) => q.writable_len(&ch),
            _ => 0,
        }
    })
}

/// drop the bounce buffers of dead shares so that long soak cases do not keep gigabytes alive
pub fn free_dead_bounces() {
    hal::with(|h| {
        for s in h.shares.iter_mut() {
            if !s.live && s.bounce.capacity() != 0 {
                s.bounce = Vec::new();
            }
        }
        h.events.clear();
    });
}

#[derive(Clone, Debug)]
pub struct Cfg {
    pub guest_cid: u64,
    pub cap: u32,
    pub rxbuf: usize,
    pub features: u64,
    pub max_q: u32,
}

pub fn make_socket<const N: usize>(cfg: &Cfg) -> Result<(VirtIOSocket<LedgerHal, ModelTransport, N>, Rc<RefCell<TState>>, u16), String> {
    hal::reset();
    DEV.with(|d| *d.borrow_mut() = None);
    SPINS.with(|s| s.set(0));
    virtio_drivers::verif_hooks::set_spin_hook(Some(spin_hook));
    let mut ts = TState::new(DeviceType::Socket, cfg.features, 3, cfg.max_q);
    ts.config = cfg.guest_cid.to_le_bytes().to_vec();
    ts.on_notify = Some(Box::new(|q| {
        if q == 1 {
            serve_tx()
        }
    }));
    let (t, st) = ModelTransport::new(ts);
    let sock = guarded(|| VirtIOSocket::<LedgerHal, ModelTransport, N>::new(t)).map_err(|p| format!("VirtIOSocket::new panicked: {}", p))?.map_err(|e| format!("VirtIOSocket::new failed: {:?}", e))?;
    let (qs, feats) = {
        let s = st.borrow();
        (s.queues.clone(), s.driver_features)
    };
    if qs.len() < 3 || !qs[0].set || !qs[1].set || !qs[2].set {
        return Err("socket driver did not register its three queues".into());
    }
    let ind = feats & (1 << 28) != 0;
    let evi = feats & (1 << 29) != 0;
    let mk = |i: usize| RefQueue::new(qs[i].size as u16, qs[i].desc, qs[i].driver, qs[i].device, ind);
    let qsize = qs[0].size as u16;
    DEV.with(|d| *d.borrow_mut() = Some(Dev { rx: mk(0), tx: mk(1), evq: mk(2), event_idx: evi, tx_pkts: vec![], errors: vec![] }));
    Ok((sock, st, qsize))
}

pub trait MgrApi {
    fn guest_cid(&self) -> u64;
    fn listen(&mut self, p: u32);
    fn unlisten(&mut self, p: u32);
    fn port_used(&self, p: u32) -> bool;
    fn connect(&mut self, a: VsockAddr, lp: u32) -> virtio_drivers::Result<()>;
    fn send(&mut self, a: VsockAddr, lp: u32, b: &[u8]) -> virtio_drivers::Result<()>;
    fn recv(&mut self, a: VsockAddr, lp: u32, b: &mut [u8]) -> virtio_drivers::Result<usize>;
    fn avail(&mut self, a: VsockAddr, lp: u32) -> virtio_drivers::Result<usize>;
    fn credit(&mut self, a: VsockAddr, lp: u32) -> virtio_drivers::Result<()>;
    fn shutdown(&mut self, a: VsockAddr, lp: u32) -> virtio_drivers::Result<()>;
    fn close(&mut self, a: VsockAddr, lp: u32) -> virtio_drivers::Result<()>;
    fn established(&mut self, a: VsockAddr, lp: u32) -> virtio_drivers::Result<bool>;
    fn poll(&mut self) -> virtio_drivers::Result<Option<VsockEvent>>;
}

impl<const N: usize> MgrApi for VsockConnectionManager<LedgerHal, ModelTransport, N> {
    fn guest_cid(&self) -> u64 {
        VsockConnectionManager::guest_cid(self)
    }
    fn listen(&mut self, p: u32) {
        VsockConnectionManager::listen(self, p)
    }
    fn unlisten(&mut self, p: u32) {
        VsockConnectionManager::unlisten(self, p)
    }
    fn port_used(&self, p: u32) -> bool {
        self.is_local_port_used(p)
    }
    fn connect(&mut self, a: VsockAddr, lp: u32) -> virtio_drivers::Result<()> {
        VsockConnectionManager::connect(self, a, lp)
    }
    fn send(&mut self, a: VsockAddr, lp: u32, b: &[u8]) -> virtio_drivers::Result<()> {
        VsockConnectionManager::send(self, a, lp, b)
    }
    fn recv(&mut self, a: VsockAddr, lp: u32, b: &mut [u8]) -> virtio_drivers::Result<usize> {
        VsockConnectionManager::recv(self, a, lp, b)
    }
    fn avail(&mut self, a: VsockAddr, lp: u32) -> virtio_drivers::Result<usize> {
        self.recv_buffer_available_bytes(a, lp)
    }
    fn credit(&mut self, a: VsockAddr, lp: u32) -> virtio_drivers::Result<()> {
        self.update_credit(a, lp)
    }
    fn shutdown(&mut self, a: VsockAddr, lp: u32) -> virtio_drivers::Result<()> {
        VsockConnectionManager::shutdown(self, a, lp)
    }
    fn close(&mut self, a: VsockAddr, lp: u32) -> virtio_drivers::Result<()> {
        self.force_close(a, lp)
    }
    fn established(&mut self, a: VsockAddr, lp: u32) -> virtio_drivers::Result<bool> {
        self.is_connection_established(a, lp)
    }
    fn poll(&mut self) -> virtio_drivers::Result<Option<VsockEvent>> {
        VsockConnectionManager::poll(self)
    }
}

pub fn err_str(e: &Error) -> String {
    match e {
        Error::SocketDeviceError(s) => match s {
            SocketError::OutputBufferTooShort(n) => format!("OutputBufferTooShort({})", n),
            SocketError::UnknownOperation(n) => format!("UnknownOperation({})", n),
            other => format!("{:?}", other),
        },
        other => format!("{:?}", other),
    }
}

pub fn ev_type_str(t: &VsockEventType) -> String {
    match t {
        VsockEventType::ConnectionRequest => "ConnectionRequest".into(),
        VsockEventType::Connected => "Connected".into(),
        VsockEventType::Disconnected { reason: DisconnectReason::Reset } => "Disconnected(Reset)".into(),
        VsockEventType::Disconnected { reason: DisconnectReason::Shutdown } => "Disconnected(Shutdown)".into(),
        VsockEventType::Received { length } => format!("Received({})", length),
        VsockEventType::CreditRequest => "CreditRequest".into(),
        VsockEventType::CreditUpdate => "CreditUpdate".into(),
    }
}

pub fn ev_str(e: &VsockEvent) -> String {
    format!(
        "ev(src={}:{},dst={}:{},ba={},fc={},{})",
        e.source.cid,
        e.source.port,
        e.destination.cid,
        e.destination.port,
        e.buffer_status.buffer_allocation,
        e.buffer_status.forward_count,
        ev_type_str(&e.event_type)
    )
}

pub fn tx_str(tx: &[TxPkt]) -> String {
    if tx.is_empty() { "-".into() } else { tx.iter().map(|p| hex(&p.raw)).collect::<Vec<_>>().join(",") }
}

/// A packet the reference peer puts into a receive buffer.
#[derive(Clone, Debug)]
pub struct InjPkt {
    /// used length reported by the device
    pub used: u32,
    pub hdr: Hdr,
    /// bytes written after the header
    pub data: Vec<u8>,
    /// data packet sent within the credit the driver advertised (honest peer)
    pub within_credit: bool,
    /// Some(true forwarded-byte count) if buf_alloc/fwd_cnt were produced by the honest peer personality
    pub honest_fwd: Option<u64>,
    /// incarnation of the connection this packet was generated for (set by `World::inject`)
    pub conn_gen: u64,
}

impl InjPkt {
    pub fn ctl(key: Key, guest: u64, op: u16, ba: u32, fc: u32) -> InjPkt {
        InjPkt {
            used: HDR as u32,
            hdr: Hdr { src_cid: key.pc, dst_cid: guest, src_port: key.pp, dst_port: key.lp, len: 0, typ: 1, op, flags: 0, buf_alloc: ba, fwd_cnt: fc },
            data: vec![],
            within_credit: false,
            honest_fwd: None,
            conn_gen: 0,
        }
    }
    pub fn rw(key: Key, guest: u64, data: Vec<u8>, ba: u32, fc: u32) -> InjPkt {
        let mut p = InjPkt::ctl(key, guest, OP_RW, ba, fc);
        p.hdr.len = data.len() as u32;
        p.used = (HDR + data.len()) as u32;
        p.data = data;
        p
    }
    pub fn key(&self) -> Key {
        Key { pc: self.hdr.src_cid, pp: self.hdr.src_port, lp: self.hdr.dst_port }
    }
}

/// The reference peer's / reference table's view of one connection.
#[derive(Clone, Debug, Default)]
pub struct OConn {
    /// incarnation number: a key may be closed and connected again
    pub generation: u64,
    pub established: bool,
    /// the peer shut down / reset while data was still buffered
    pub closing: bool,
    // driver -> peer
    pub tx_total: u64,
    pub adv_alloc: u32,
    pub adv_fwd: u32,
    pub adv_fwd_true: Option<u64>,
    pub credit_req_outstanding: bool,
    // peer -> driver
    pub rx_total: u64,
    pub delivered: u64,
    pub buffered: VecDeque<u8>,
    pub lossless: bool,
    // honest-peer personality
    pub peer_sent_total: u64,
    pub drv_alloc_seen: u32,
    pub drv_fwd_seen: u32,
    pub peer_consumed: u64,
    pub peer_alloc: u32,
}

impl OConn {
    /// spec §5.10.6.3: peer_free = peer_buf_alloc - (tx_cnt - peer_fwd_cnt), 32-bit free-running counters
    pub fn peer_free(&self) -> u32 {
        self.adv_alloc.saturating_sub((self.tx_total as u32).wrapping_sub(self.adv_fwd))
    }
    /// the peer's view of the driver's free receive space, from the last credit it saw
    pub fn driver_free_seen(&self) -> u32 {
        self.drv_alloc_seen.saturating_sub((self.peer_sent_total as u32).wrapping_sub(self.drv_fwd_seen))
    }
}

pub struct World {
    pub mgr: Box<dyn MgrApi>,
    pub ts: Rc<RefCell<TState>>,
    pub cfg: Cfg,
    pub qsize: u16,
    pub conns: BTreeMap<Key, OConn>,
    pub listening: BTreeSet<u32>,
    pub unconsumed: VecDeque<InjPkt>,
    pub dead: bool,
    /// record model steps (false for multi-gigabyte receive soaks the list model cannot replay)
    pub model: bool,
    pub probe: bool,
    pub delivered_bytes: u64,
    pub sent_bytes: u64,
    pub events: usize,
    pub next_gen: u64,
}

macro_rules! build_n {
    ($n:expr, $cfg:expr) => {{
        let (sock, ts, qsize) = make_socket::<$n>($cfg)?;
        let m = VsockConnectionManager::new_with_capacity(sock, $cfg.cap);
        (Box::new(m) as Box<dyn MgrApi>, ts, qsize)
    }};
}

pub const BIG_RX: usize = 1 << 20;

impl World {
    pub fn new(cfg: Cfg, c: &mut Case) -> Result<World, String> {
        let (mgr, ts, qsize) = match cfg.rxbuf {
            64 => build_n!(64, &cfg),
            512 => build_n!(512, &cfg),
            4096 => build_n!(4096, &cfg),
            BIG_RX => build_n!(BIG_RX, &cfg),
            other => return Err(format!("unsupported rx buffer size {}", other)),
        };
        let w = World {
            mgr,
            ts,
            cfg: cfg.clone(),
            qsize,
            conns: BTreeMap::new(),
            listening: BTreeSet::new(),
            unconsumed: VecDeque::new(),
            dead: false,
            model: true,
            probe: true,
            delivered_bytes: 0,
            sent_bytes: 0,
            events: 0,
            next_gen: 1,
        };
        if w.mgr.guest_cid() != cfg.guest_cid {
            c.fail(format!("guest_cid() = {} but the device configuration says {}", w.mgr.guest_cid(), cfg.guest_cid));
        }
        if dev_posted() != qsize as usize {
            c.fail(format!("{} receive buffers posted after construction, queue size {}", dev_posted(), qsize));
        }
        let bl = dev_rx_buffer_len();
        if bl != cfg.rxbuf {
            c.fail(format!("receive buffers are {} bytes, RX_BUFFER_SIZE {}", bl, cfg.rxbuf));
        }
        c.step(format!("vsock new cid={} cap={} rxbuf={} qsize={}", cfg.guest_cid, cfg.cap, cfg.rxbuf, qsize), "ok");
        Ok(w)
    }

    fn step(&self, c: &mut Case, op: String, out: String) {
        if self.model {
            c.step(op, out);
        }
    }

    fn after(&mut self, c: &mut Case, what: &str) {
        for e in take_dev_errors() {
            c.fail(format!("device: {} (during {})", e, what));
        }
        for v in hal::with(|h| std::mem::take(&mut h.violations)) {
            c.fail(format!("ledger: {} (during {})", v, what));
        }
    }

    fn panic(&mut self, c: &mut Case, what: &str, msg: &str) {
        self.dead = true;
        // capacity 0 is the documented `% 0` observation of DESIGN §6, outside the property
        if self.cfg.cap != 0 {
            c.fail(format!("panic in {}: {}", what, msg));
        }
    }

    /// checks every header field of a packet the driver sent for connection `key`
    fn check_tx(&mut self, c: &mut Case, key: Key, p: &TxPkt, op: u16, what: &str) {
        let h = &p.hdr;
        let g = self.cfg.guest_cid;
        if h.src_cid != g || h.src_port != key.lp || h.dst_cid != key.pc || h.dst_port != key.pp {
            c.fail(format!("{}: packet addressing {}:{} -> {}:{} but connection is {}:{} -> {}:{}", what, h.src_cid, h.src_port, h.dst_cid, h.dst_port, g, key.lp, key.pc, key.pp));
        }
        if h.typ != 1 {
            c.fail(format!("{}: packet type {} is not stream", what, h.typ));
        }
        if h.op != op {
            c.fail(format!("{}: packet op {} expected {}", what, h.op, op));
        }
        if h.len as usize != p.payload.len() {
            c.fail(format!("{}: header len {} but {} payload bytes on the queue", what, h.len, p.payload.len()));
        }
        if op != OP_RW && !p.payload.is_empty() {
            c.fail(format!("{}: control packet with payload", what));
        }
        let want_flags = if op == OP_SHUTDOWN { 3 } else { 0 };
        if h.flags != want_flags {
            c.fail(format!("{}: flags {} expected {}", what, h.flags, want_flags));
        }
        if h.buf_alloc != self.cfg.cap {
            c.fail(format!("{}: buf_alloc {} but the per-connection capacity is {}", what, h.buf_alloc, self.cfg.cap));
        }
        let (delivered, rx_total, buffered) = self.conns.get(&key).map(|o| (o.delivered, o.rx_total, o.buffered.len() as u64)).unwrap_or((0, 0, 0));
        if h.fwd_cnt != delivered as u32 {
            c.fail(format!("{}: fwd_cnt {} but {} bytes were delivered to the application (mod 2^32 = {})", what, h.fwd_cnt, delivered, delivered as u32));
        }
        // the advertised credit never overstates the free receive space
        let outstanding = (rx_total as u32).wrapping_sub(h.fwd_cnt);
        let advertised_free = h.buf_alloc.saturating_sub(outstanding) as u64;
        let real_free = (self.cfg.cap as u64).saturating_sub(buffered);
        if advertised_free > real_free {
            c.fail(format!("{}: advertised free space {} exceeds the real free receive space {}", what, advertised_free, real_free));
        }
        if let Some(o) = self.conns.get_mut(&key) {
            o.drv_alloc_seen = h.buf_alloc;
            o.drv_fwd_seen = h.fwd_cnt;
        }
    }

    fn expect_tx(&mut self, c: &mut Case, key: Key, tx: &[TxPkt], ops: &[u16], what: &str) {
        if tx.len() != ops.len() {
            c.fail(format!("{}: {} packets sent (ops {:?}), expected ops {:?}", what, tx.len(), tx.iter().map(|p| p.hdr.op).collect::<Vec<_>>(), ops));
        }
        for (p, op) in tx.iter().zip(ops.iter()) {
            self.check_tx(c, key, p, *op, what);
        }
    }

    /// isolation: every connection of the reference table still has its buffered byte count and
    /// established flag, and nothing else is connected
    pub fn probe_all(&mut self, c: &mut Case, what: &str) {
        if !self.probe || self.dead {
            return;
        }
        let keys: Vec<Key> = self.conns.keys().cloned().collect();
        for k in keys {
            let o = &self.conns[&k];
            let (want_b, want_e) = (o.buffered.len(), o.established);
            match guarded(|| (self.mgr.avail(k.addr(), k.lp), self.mgr.established(k.addr(), k.lp))) {
                Ok((Ok(b), Ok(e))) => {
                    if b != want_b {
                        c.fail(format!("after {}: connection {:?} has {} readable bytes, reference {}", what, k, b, want_b));
                    }
                    if e != want_e {
                        c.fail(format!("after {}: connection {:?} established={} reference {}", what, k, e, want_e));
                    }
                }
                Ok((a, b)) => c.fail(format!("after {}: connection {:?} of the reference table is gone or broken: {:?} {:?}", what, k, a.map_err(|e| err_str(&e)), b.map_err(|e| err_str(&e)))),
                Err(p) => self.panic(c, "probe", &p),
            }
        }
    }

    pub fn listen(&mut self, c: &mut Case, port: u32) {
        if let Err(p) = guarded(|| self.mgr.listen(port)) {
            return self.panic(c, "listen", &p);
        }
        self.listening.insert(port);
        self.step(c, format!("vsock listen port={}", port), "ok".into());
        self.after(c, "listen");
    }
    pub fn unlisten(&mut self, c: &mut Case, port: u32) {
        if let Err(p) = guarded(|| self.mgr.unlisten(port)) {
            return self.panic(c, "unlisten", &p);
        }
        self.listening.remove(&port);
        self.step(c, format!("vsock unlisten port={}", port), "ok".into());
        self.after(c, "unlisten");
    }
    pub fn port_used(&mut self, c: &mut Case, port: u32) {
        let r = self.mgr.port_used(port);
        let want = self.listening.contains(&port) || self.conns.keys().any(|k| k.lp == port);
        if r != want {
            c.fail(format!("is_local_port_used({}) = {} but the reference table says {}", port, r, want));
        }
        self.step(c, format!("vsock portused port={}", port), format!("ok {}", r));
    }

    fn unit_res(r: &Result<virtio_drivers::Result<()>, String>) -> String {
        match r {
            Ok(Ok(())) => "ok".into(),
            Ok(Err(e)) => format!("err {}", err_str(e)),
            Err(_) => "panic".into(),
        }
    }

    pub fn connect(&mut self, c: &mut Case, key: Key) {
        let r = guarded(|| self.mgr.connect(key.addr(), key.lp));
        let tx = take_tx();
        self.step(c, format!("vsock connect {}", key.args()), format!("{} tx={}", Self::unit_res(&r), tx_str(&tx)));
        match &r {
            Err(p) => return self.panic(c, "connect", p),
            Ok(r) => {
                if self.conns.contains_key(&key) {
                    if !matches!(r, Err(Error::SocketDeviceError(SocketError::ConnectionExists))) {
                        c.fail(format!("duplicate connect {:?} returned {:?}, expected ConnectionExists", key, r.as_ref().map_err(err_str)));
                    }
                    self.expect_tx(c, key, &tx, &[], "duplicate connect");
                } else {
                    if r.is_err() {
                        c.fail(format!("connect {:?} failed: {:?}", key, r.as_ref().map_err(err_str)));
                    }
                    self.next_gen += 1;
                    self.conns.insert(key, OConn { generation: self.next_gen, lossless: true, ..Default::default() });
                    self.expect_tx(c, key, &tx, &[OP_REQUEST], "connect");
                }
            }
        }
        self.after(c, "connect");
        self.probe_all(c, "connect");
    }

    pub fn send(&mut self, c: &mut Case, key: Key, data: &[u8]) -> bool {
        let r = guarded(|| self.mgr.send(key.addr(), key.lp, data));
        let tx = take_tx();
        self.step(c, format!("vsock send {} len={}", key.args(), data.len()), format!("{} tx={}", Self::unit_res(&r), tx_str(&tx)));
        let mut accepted = false;
        match &r {
            Err(p) => {
                self.panic(c, &format!("send of {} bytes on {:?}", data.len(), key), p);
                return false;
            }
            Ok(r) => match self.conns.get(&key).cloned() {
                None => {
                    if !matches!(r, Err(Error::SocketDeviceError(SocketError::NotConnected))) {
                        c.fail(format!("send on unknown connection {:?} returned {:?}, expected NotConnected", key, r.as_ref().map_err(err_str)));
                    }
                    self.expect_tx(c, key, &tx, &[], "send on unknown connection");
                }
                Some(o) if o.closing && matches!(r, Err(Error::SocketDeviceError(SocketError::PeerSocketShutdown))) => {
                    self.expect_tx(c, key, &tx, &[], "send after peer shutdown");
                }
                Some(o) => {
                    let free = o.peer_free();
                    match r {
                        Ok(()) => {
                            accepted = true;
                            if data.len() as u64 > free as u64 {
                                c.fail(format!("send of {} bytes accepted but the peer last advertised buf_alloc={} fwd_cnt={} with tx_cnt={} (free {})", data.len(), o.adv_alloc, o.adv_fwd, o.tx_total, free));
                            }
                            self.expect_tx(c, key, &tx, &[OP_RW], "send");
                            if let Some(p) = tx.first() {
                                if p.payload != data {
                                    c.fail("send: payload on the transmit queue differs from the caller's buffer");
                                }
                            }
                            let oo = self.conns.get_mut(&key).unwrap();
                            oo.tx_total += data.len() as u64;
                            self.sent_bytes += data.len() as u64;
                            if let Some(f) = oo.adv_fwd_true {
                                if !data.is_empty() && oo.tx_total - f > oo.adv_alloc as u64 {
                                    c.fail(format!("after send: {} bytes in flight (sent {} - forwarded {}) exceed the peer's buf_alloc {}", oo.tx_total - f, oo.tx_total, f, oo.adv_alloc));
                                }
                            }
                        }
                        Err(Error::SocketDeviceError(SocketError::InsufficientBufferSpaceInPeer)) => {
                            if data.len() as u64 <= free as u64 {
                                c.fail(format!("send of {} bytes refused although the peer advertised {} free bytes", data.len(), free));
                            }
                            if o.credit_req_outstanding {
                                self.expect_tx(c, key, &tx, &[], "refused send with a credit request already outstanding");
                            } else {
                                self.expect_tx(c, key, &tx, &[OP_CREDIT_REQUEST], "first refused send");
                                self.conns.get_mut(&key).unwrap().credit_req_outstanding = true;
                            }
                        }
                        other => c.fail(format!("send on {:?} returned {:?}", key, other.as_ref().map_err(err_str))),
                    }
                }
            },
        }
        self.after(c, "send");
        self.probe_all(c, "send");
        accepted
    }

    pub fn recv(&mut self, c: &mut Case, key: Key, n: usize) -> usize {
        let mut buf = vec![0xEEu8; n];
        let r = guarded(|| self.mgr.recv(key.addr(), key.lp, &mut buf));
        let tx = take_tx();
        let out = match &r {
            Ok(Ok(k)) => format!("ok {} {}", k, hex_or_dash(&buf[..(*k).min(n)])),
            Ok(Err(e)) => format!("err {}", err_str(e)),
            Err(_) => "panic".into(),
        };
        self.step(c, format!("vsock recv {} n={}", key.args(), n), format!("{} tx={}", out, tx_str(&tx)));
        let mut got = 0;
        match &r {
            Err(p) => {
                self.panic(c, &format!("recv on {:?}", key), p);
                return 0;
            }
            Ok(r) => match self.conns.contains_key(&key) {
                false => {
                    if !matches!(r, Err(Error::SocketDeviceError(SocketError::NotConnected))) {
                        c.fail(format!("recv on unknown connection {:?} returned {:?}, expected NotConnected", key, r.as_ref().map_err(err_str)));
                    }
                    self.expect_tx(c, key, &tx, &[], "recv on unknown connection");
                }
                true => match r {
                    Ok(k) => {
                        let k = *k;
                        got = k;
                        let o = self.conns.get_mut(&key).unwrap();
                        if k > n || k > o.buffered.len() {
                            c.fail(format!("recv returned {} bytes, buffer {} bytes, {} bytes were buffered", k, n, o.buffered.len()));
                        } else {
                            if k != n.min(o.buffered.len()) {
                                c.fail(format!("recv returned {} bytes although {} were readable into a {}-byte buffer", k, o.buffered.len(), n));
                            }
                            let want: Vec<u8> = o.buffered.drain(..k).collect();
                            if want[..] != buf[..k] {
                                c.fail(format!("recv on {:?}: bytes differ from the stream the peer sent at stream offset {}", key, o.delivered));
                            }
                            o.delivered += k as u64;
                            self.delivered_bytes += k as u64;
                        }
                        let o = self.conns.get(&key).unwrap();
                        if o.closing && o.buffered.is_empty() {
                            self.expect_tx(c, key, &tx, &[OP_RST], "recv draining a connection the peer shut down");
                            self.conns.remove(&key);
                        } else {
                            self.expect_tx(c, key, &tx, &[], "recv");
                        }
                    }
                    Err(e) => c.fail(format!("recv on {:?} failed: {}", key, err_str(e))),
                },
            },
        }
        self.after(c, "recv");
        self.probe_all(c, "recv");
        got
    }

    pub fn avail(&mut self, c: &mut Case, key: Key) {
        let r = guarded(|| self.mgr.avail(key.addr(), key.lp));
        let out = match &r {
            Ok(Ok(k)) => format!("ok {}", k),
            Ok(Err(e)) => format!("err {}", err_str(e)),
            Err(_) => "panic".into(),
        };
        self.step(c, format!("vsock avail {}", key.args()), format!("{} tx=-", out));
        match &r {
            Err(p) => self.panic(c, "recv_buffer_available_bytes", p),
            Ok(r) => match (self.conns.get(&key), r) {
                (None, Err(Error::SocketDeviceError(SocketError::NotConnected))) => {}
                (None, other) => c.fail(format!("recv_buffer_available_bytes on unknown {:?} returned {:?}", key, other.as_ref().map_err(err_str))),
                (Some(o), Ok(k)) if *k == o.buffered.len() => {}
                (Some(o), other) => c.fail(format!("recv_buffer_available_bytes {:?} returned {:?}, reference {}", key, other.as_ref().map_err(err_str), o.buffered.len())),
            },
        }
    }

    pub fn established(&mut self, c: &mut Case, key: Key) {
        let r = guarded(|| self.mgr.established(key.addr(), key.lp));
        let out = match &r {
            Ok(Ok(k)) => format!("ok {}", k),
            Ok(Err(e)) => format!("err {}", err_str(e)),
            Err(_) => "panic".into(),
        };
        self.step(c, format!("vsock established {}", key.args()), format!("{} tx=-", out));
        match &r {
            Err(p) => self.panic(c, "is_connection_established", p),
            Ok(r) => match (self.conns.get(&key), r) {
                (None, Err(Error::SocketDeviceError(SocketError::NotConnected))) => {}
                (None, other) => c.fail(format!("is_connection_established on unknown {:?} returned {:?}", key, other.as_ref().map_err(err_str))),
                (Some(o), Ok(k)) if *k == o.established => {}
                (Some(o), other) => c.fail(format!("is_connection_established {:?} returned {:?}, reference {}", key, other.as_ref().map_err(err_str), o.established)),
            },
        }
    }

    /// update_credit / shutdown / force_close
    pub fn ctl(&mut self, c: &mut Case, key: Key, which: &str) {
        let r = guarded(|| match which {
            "credit" => self.mgr.credit(key.addr(), key.lp),
            "shutdown" => self.mgr.shutdown(key.addr(), key.lp),
            _ => self.mgr.close(key.addr(), key.lp),
        });
        let tx = take_tx();
        self.step(c, format!("vsock {} {}", which, key.args()), format!("{} tx={}", Self::unit_res(&r), tx_str(&tx)));
        match &r {
            Err(p) => return self.panic(c, which, p),
            Ok(r) => match self.conns.get(&key).cloned() {
                None => {
                    if !matches!(r, Err(Error::SocketDeviceError(SocketError::NotConnected))) {
                        c.fail(format!("{} on unknown connection {:?} returned {:?}, expected NotConnected", which, key, r.as_ref().map_err(err_str)));
                    }
                    self.expect_tx(c, key, &tx, &[], which);
                }
                Some(o) => {
                    if which == "credit" && o.closing && matches!(r, Err(Error::SocketDeviceError(SocketError::PeerSocketShutdown))) {
                        self.expect_tx(c, key, &tx, &[], "update_credit after peer shutdown");
                    } else {
                        if let Err(e) = r {
                            c.fail(format!("{} on {:?} failed: {}", which, key, err_str(e)));
                        }
                        let op = match which {
                            "credit" => OP_CREDIT_UPDATE,
                            "shutdown" => OP_SHUTDOWN,
                            _ => OP_RST,
                        };
                        self.expect_tx(c, key, &tx, &[op], which);
                        if which == "close" && r.is_ok() {
                            self.conns.remove(&key);
                        }
                    }
                }
            },
        }
        self.after(c, which);
        self.probe_all(c, which);
    }

    /// the device completes a receive buffer with this packet; false if no buffer was available
    pub fn inject(&mut self, c: &mut Case, mut p: InjPkt) -> bool {
        if self.unconsumed.len() >= self.qsize as usize {
            return false;
        }
        p.conn_gen = self.conns.get(&p.key()).map(|o| o.generation).unwrap_or(0);
        if p.conn_gen == 0 {
            p.within_credit = false; // no connection yet: nothing was advertised to this peer
        }
        if p.within_credit {
            // an honest peer accounts for everything it has on the wire for this address pair, and
            // does not send data behind its own request / reset / shutdown
            let k = p.key();
            let disruptive = self.unconsumed.iter().any(|q| q.key() == k && matches!(q.hdr.op, OP_REQUEST | OP_RST | OP_SHUTDOWN));
            let stale: u64 = self.unconsumed.iter().filter(|q| q.key() == k && q.hdr.op == OP_RW && q.conn_gen != p.conn_gen).map(|q| q.hdr.len as u64).sum();
            let free = self.conns[&k].driver_free_seen() as u64;
            if disruptive || stale + p.hdr.len as u64 > free {
                p.within_credit = false;
            }
        }
        let mut bytes = p.hdr.encode().to_vec();
        bytes.extend_from_slice(&p.data);
        match dev_inject(p.used, &bytes) {
            Ok(true) => {}
            Ok(false) => return false,
            Err(e) => {
                c.fail(format!("device: receive queue: {}", e));
                self.dead = true;
                return false;
            }
        }
        let h = &p.hdr;
        if self.model {
            c.step(
                format!(
                    "vsock inject used={} sc={} sp={} dc={} dp={} len={} type={} op={} flags={} ba={} fc={} data={}",
                    p.used, h.src_cid, h.src_port, h.dst_cid, h.dst_port, h.len, h.typ, h.op, h.flags, h.buf_alloc, h.fwd_cnt, hex_or_dash(&p.data)
                ),
                format!("posted={}", dev_posted()),
            );
        }
        if h.op == OP_RW {
            if let Some(o) = self.conns.get_mut(&p.key()) {
                o.peer_sent_total += p.data.len().min(h.len as usize) as u64;
            }
        }
        self.unconsumed.push_back(p);
        true
    }

    fn expect_event(&self, c: &mut Case, r: &virtio_drivers::Result<Option<VsockEvent>>, h: &Hdr, ty: &str, what: &str) {
        match r {
            Ok(Some(e)) => {
                let ok = e.source.cid == h.src_cid
                    && e.source.port == h.src_port
                    && e.destination.cid == h.dst_cid
                    && e.destination.port == h.dst_port
                    && e.buffer_status.buffer_allocation == h.buf_alloc
                    && e.buffer_status.forward_count == h.fwd_cnt
                    && ev_type_str(&e.event_type) == ty;
                if !ok {
                    c.fail(format!("{}: event {} does not describe the packet (expected {})", what, ev_str(e), ty));
                }
            }
            other => c.fail(format!("{}: poll returned {:?}, expected event {}", what, other.as_ref().map(|o| o.as_ref().map(ev_str)).map_err(err_str), ty)),
        }
    }
    fn expect_none(&self, c: &mut Case, r: &virtio_drivers::Result<Option<VsockEvent>>, what: &str) {
        if !matches!(r, Ok(None)) {
            c.fail(format!("{}: poll returned {:?}, expected no event", what, r.as_ref().map(|o| o.as_ref().map(ev_str)).map_err(err_str)));
        }
    }

    pub fn poll(&mut self, c: &mut Case) {
        let r = guarded(|| self.mgr.poll());
        let tx = take_tx();
        let res = match &r {
            Ok(Ok(None)) => "none".to_string(),
            Ok(Ok(Some(e))) => ev_str(e),
            Ok(Err(e)) => format!("err {}", err_str(e)),
            Err(_) => "panic".into(),
        };
        let posted = dev_posted();
        self.step(c, "vsock poll".into(), format!("{} tx={} posted={}", res, tx_str(&tx), posted));
        let r = match r {
            Err(p) => return self.panic(c, "poll", &p),
            Ok(r) => r,
        };
        let pkt = self.unconsumed.pop_front();
        // every received packet, whatever its outcome, returns its buffer to the device
        if posted + self.unconsumed.len() != self.qsize as usize {
            c.fail(format!("after poll: {} receive buffers posted + {} completed-unpolled != queue size {} (result {})", posted, self.unconsumed.len(), self.qsize, res));
        }
        if r.is_ok() && r.as_ref().unwrap().is_some() {
            self.events += 1;
        }
        match pkt {
            None => {
                self.expect_none(c, &r, "poll with nothing received");
                if !tx.is_empty() {
                    c.fail("poll with nothing received sent packets");
                }
            }
            Some(p) => self.oracle_poll(c, p, &r, &tx),
        }
        self.after(c, "poll");
        self.probe_all(c, "poll");
    }

    fn oracle_poll(&mut self, c: &mut Case, p: InjPkt, r: &virtio_drivers::Result<Option<VsockEvent>>, tx: &[TxPkt]) {
        let h = p.hdr.clone();
        let key = p.key();
        let g = self.cfg.guest_cid;
        let malformed = p.used as usize > self.cfg.rxbuf || (p.used as usize) < HDR || HDR + h.len as usize > p.used as usize || h.op == 0 || h.op > 7 || (h.op != OP_RW && h.len != 0);
        if malformed {
            if r.is_ok() {
                c.fail(format!("malformed packet (used {}, op {}, len {}) was not rejected: {:?}", p.used, h.op, h.len, r.as_ref().map(|o| o.as_ref().map(ev_str)).map_err(err_str)));
            }
            if !tx.is_empty() {
                c.fail("malformed packet caused a transmission");
            }
            return;
        }
        let known = h.dst_cid == g && self.conns.contains_key(&key);
        if !known {
            if h.op == OP_REQUEST && h.dst_cid == g {
                if self.listening.contains(&key.lp) {
                    self.expect_event(c, r, &h, "ConnectionRequest", "request to a listening port");
                    self.next_gen += 1;
                    self.conns.insert(key, OConn { generation: self.next_gen, established: true, lossless: true, adv_alloc: h.buf_alloc, adv_fwd: h.fwd_cnt, adv_fwd_true: p.honest_fwd.filter(|f| *f == 0), ..Default::default() });
                    self.expect_tx(c, key, tx, &[OP_RESPONSE], "accepting a connection request");
                } else {
                    self.expect_none(c, r, "request to a port nobody listens on");
                    self.expect_tx(c, key, tx, &[OP_RST], "rejecting a connection request");
                }
            } else {
                self.expect_none(c, r, "packet for no known connection");
                if !tx.is_empty() {
                    c.fail(format!("packet for no known connection (op {}) caused a transmission", h.op));
                }
            }
            return;
        }
        {
            let o = self.conns.get_mut(&key).unwrap();
            o.adv_alloc = h.buf_alloc;
            o.adv_fwd = h.fwd_cnt;
            o.adv_fwd_true = if p.conn_gen == o.generation { p.honest_fwd.filter(|f| *f <= o.tx_total) } else { None };
        }
        match h.op {
            OP_REQUEST => {
                // a second request on a live connection: the property is silent; follow the implementation
                for t in tx {
                    self.check_tx(c, key, t, t.hdr.op, "duplicate connection request");
                }
                let still = matches!(guarded(|| self.mgr.established(key.addr(), key.lp)), Ok(Ok(_)));
                if still {
                    self.conns.get_mut(&key).unwrap().established = true;
                } else {
                    self.conns.remove(&key);
                }
            }
            OP_RESPONSE => {
                self.expect_event(c, r, &h, "Connected", "response");
                self.conns.get_mut(&key).unwrap().established = true;
                self.expect_tx(c, key, tx, &[], "response");
            }
            OP_RST | OP_SHUTDOWN => {
                let ty = if h.op == OP_RST { "Disconnected(Reset)" } else { "Disconnected(Shutdown)" };
                self.expect_event(c, r, &h, ty, "peer disconnect");
                if self.conns[&key].buffered.is_empty() {
                    let ops: &[u16] = if h.op == OP_SHUTDOWN { &[OP_RST] } else { &[] };
                    self.expect_tx(c, key, tx, ops, "peer disconnect with nothing buffered");
                    self.conns.remove(&key);
                } else {
                    self.conns.get_mut(&key).unwrap().closing = true;
                    self.expect_tx(c, key, tx, &[], "peer disconnect with data buffered");
                }
            }
            OP_RW => {
                let body = &p.data[..h.len as usize];
                let honest = p.within_credit && self.conns[&key].lossless && self.conns[&key].generation == p.conn_gen;
                match r {
                    Ok(Some(_)) => {
                        self.expect_event(c, r, &h, &format!("Received({})", h.len), "data packet");
                        let o = self.conns.get_mut(&key).unwrap();
                        o.buffered.extend(body.iter());
                        o.rx_total += body.len() as u64;
                        if o.generation != p.conn_gen {
                            // sent before this incarnation of the connection existed: not yet counted
                            o.peer_sent_total += body.len() as u64;
                        }
                        if o.buffered.len() as u64 > self.cfg.cap as u64 {
                            c.fail(format!("driver accepted data beyond its capacity: {} buffered, capacity {}", o.buffered.len(), self.cfg.cap));
                        }
                    }
                    other => {
                        if honest {
                            let o = &self.conns[&key];
                            c.fail(format!("data packet of {} bytes sent within the advertised credit was lost: poll returned {:?} (reference: {} buffered of {}, peer sent {} in total, last credit seen buf_alloc={} fwd_cnt={}, delivered {})", h.len, other.as_ref().map(|_| "none").map_err(err_str), o.buffered.len(), self.cfg.cap, o.peer_sent_total, o.drv_alloc_seen, o.drv_fwd_seen, o.delivered));
                        }
                        self.conns.get_mut(&key).unwrap().lossless = false;
                    }
                }
                if !p.within_credit {
                    self.conns.get_mut(&key).unwrap().lossless = false;
                }
                self.expect_tx(c, key, tx, &[], "data packet");
            }
            OP_CREDIT_UPDATE => {
                self.expect_event(c, r, &h, "CreditUpdate", "credit update");
                self.conns.get_mut(&key).unwrap().credit_req_outstanding = false;
                self.expect_tx(c, key, tx, &[], "credit update");
            }
            OP_CREDIT_REQUEST => {
                self.expect_none(c, r, "credit request");
                self.expect_tx(c, key, tx, &[OP_CREDIT_UPDATE], "credit request");
            }
            _ => unreachable!(),
        }
    }

    /// honest peer personality: credit values for the next packet on `key`
    pub fn honest_credit(&mut self, rng: &mut crate::rng::Rng, key: Key) -> (u32, u32, Option<u64>) {
        let Some(o) = self.conns.get_mut(&key) else { return (rng.u32_biased(), 0, None) };
        // the peer consumes some of what it received
        let lag = o.tx_total - o.peer_consumed;
        if lag > 0 {
            o.peer_consumed += match rng.below(4) {
                0 => 0,
                1 => lag,
                _ => rng.below(lag + 1),
            };
        }
        if rng.chance(1, 4) {
            o.peer_alloc = match rng.below(5) {
                0 => 0,
                1 => rng.below(64) as u32,
                2 => u32::MAX - rng.below(3) as u32,
                3 => lag as u32, // shrink to (or below) the bytes in flight
                _ => rng.below(1 << 16) as u32,
            };
        }
        (o.peer_alloc, o.peer_consumed as u32, Some(o.peer_consumed))
    }
}
