#!/bin/sh
# Builds the whole framework offline from files on disk: harness (against /repo, hooks on),
# generated Lean fragments, every Lean module and the native model driver.
set -e
cd "$(dirname "$0")"
export CARGO_NET_OFFLINE=true
mkdir -p out replays evidence
(cd harness && cargo build --offline 2>&1 | tail -3)
harness/target/debug/vh consts > out/Consts.lean.new && {
  cmp -s out/Consts.lean.new lean/VirtioVerif/Generated/Consts.lean || cp out/Consts.lean.new lean/VirtioVerif/Generated/Consts.lean; }
harness/target/debug/vh features > out/Features.lean.new && {
  cmp -s out/Features.lean.new lean/VirtioVerif/Generated/Features.lean || cp out/Features.lean.new lean/VirtioVerif/Generated/Features.lean; }
python3 tools/extract.py /repo lean/VirtioVerif/Generated
python3 tools/extract_publish.py /repo lean/VirtioVerif/Generated
(cd lean && lake build 2>&1 | tail -3)
echo setup: ok
